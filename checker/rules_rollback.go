package main

import (
	"fmt"
	"go/token"
	"go/types"
	"strings"

	"golang.org/x/tools/go/callgraph"
	"golang.org/x/tools/go/ssa"
)

// ---------------------------------------------------------------------------
// R-MARK-ROLLBACK (C13, C20; added after seed C13b): a function that marks a key in a map of the VM before
// a fallible step and un-marks it (delete on the same map) when the step fails — ensure_loaded/1 marking the
// file as loaded before compiling it — un-marks it on every exit that can return an error after the mark:
//   (1) every path from the insertion to a return whose error result is not the constant nil passes
//       through the delete, or
//   (2) the delete sits in a deferred closure under the guard `v != nil`, and the error the function
//       returns is read back from that same variable v (a named result).
// Otherwise a load that fails — or is cancelled — leaves the file marked: the next ensure_loaded of it
// silently does nothing.

type vmMapOp struct {
	in    ssa.Instruction
	field string
	fn    *ssa.Function
}

// vmFieldOfMap: m is a load of a VM field (vm.loaded): returns the field name.
func (c *Ctx) vmFieldOfMap(m ssa.Value) string {
	for _, l := range c.originSet(m) {
		if u, ok := l.(*ssa.UnOp); ok && u.Op == token.MUL {
			if fa, ok := u.X.(*ssa.FieldAddr); ok && isEngNamed(deref(fa.X.Type()), "VM") {
				return fieldName(fa)
			}
		}
	}
	return ""
}

func instrReachAvoid(start ssa.Instruction, target, avoid func(ssa.Instruction) bool) ssa.Instruction {
	seen := map[*ssa.BasicBlock]bool{}
	var found ssa.Instruction
	var scan func(b *ssa.BasicBlock, from int)
	scan = func(b *ssa.BasicBlock, from int) {
		for i := from; i < len(b.Instrs) && found == nil; i++ {
			in := b.Instrs[i]
			if avoid(in) {
				return
			}
			if target(in) {
				found = in
				return
			}
		}
		for _, s := range b.Succs {
			if !seen[s] && found == nil {
				seen[s] = true
				scan(s, 0)
			}
		}
	}
	scan(start.Block(), instrIndex(start)+1)
	return found
}

func ruleMarkRollback(c *Ctx, r *Report) {
	const rule = "R-MARK-ROLLBACK"
	desc := "a key marked in a VM map before a fallible step is un-marked on every exit that can return an error"
	n := 0
	for _, top := range c.LibFuncs() {
		if top.Parent() != nil {
			continue
		}
		var inserts, deletes []vmMapOp
		for _, f := range withAnon(top) {
			eachInstr(f, func(in ssa.Instruction) {
				switch x := in.(type) {
				case *ssa.MapUpdate:
					if fld := c.vmFieldOfMap(x.Map); fld != "" {
						inserts = append(inserts, vmMapOp{in, fld, f})
					}
				case ssa.CallInstruction:
					if b, ok := x.Common().Value.(*ssa.Builtin); ok && b.Name() == "delete" {
						if fld := c.vmFieldOfMap(x.Common().Args[0]); fld != "" {
							deletes = append(deletes, vmMapOp{in, fld, f})
						}
					}
				}
			})
		}
		for _, ins := range inserts {
			var dels []vmMapOp
			for _, d := range deletes {
				if d.field == ins.field {
					dels = append(dels, d)
				}
			}
			if ins.fn == top {
				gkey := fmt.Sprintf("%s/VM.%s/guard", fname(top), ins.field)
				// a memoising insertion (the same map is looked up in this function) is also the re-entrancy
				// guard: it precedes every call that runs goals (statically reaches the trampoline), because a
				// goal may call this function again (a file that loads itself)
				lookedUp := false
				eachInstr(top, func(in ssa.Instruction) {
					if lk, ok := in.(*ssa.Lookup); ok && lk.CommaOk && c.vmFieldOfMap(lk.X) == ins.field {
						lookedUp = true
					}
				})
				var late ssa.Instruction
				nre := 0
				if lookedUp {
					eachInstr(top, func(in ssa.Instruction) {
						ci, ok := in.(ssa.CallInstruction)
						if !ok {
							return
						}
						callee := ci.Common().StaticCallee()
						if callee == nil || !c.isLibPkg(funcPkg(callee)) {
							return
						}
						if tr := c.trampoline(); tr == nil || !c.staticallyReaches(callee, tr) {
							return
						}
						nre++
						ib, mb := in.Block(), ins.in.Block()
						dominated := (ib == mb && instrIndex(ins.in) < instrIndex(in)) || (ib != mb && mb.Dominates(ib))
						if !dominated && late == nil {
							late = in
						}
					})
				}
				if nre > 0 {
					n++
					if late != nil {
						r.bad(rule, gkey, c.at(late), "the memoising mark precedes every call that runs goals (re-entrancy guard)", "this call runs goals and is not dominated by the insertion into VM."+ins.field+": a file that loads itself recurses until the Go stack is exhausted (fatal, not recoverable)")
					} else {
						r.ok(rule, gkey, c.at(ins.in), "the memoising mark precedes every call that runs goals (re-entrancy guard)", fmt.Sprintf("%d goal-running call(s), each dominated by the insertion", nre), true)
					}
				}
			}
			if len(dels) == 0 || ins.fn != top {
				continue // a plain insertion, no rollback protocol in this function
			}
			key := fmt.Sprintf("%s/VM.%s", fname(top), ins.field)
			// error result index
			eidx := -1
			res := top.Signature.Results()
			for i := 0; i < res.Len(); i++ {
				if isErrorType(res.At(i).Type()) {
					eidx = i
				}
			}
			if eidx < 0 {
				continue // no error to roll back on: not this protocol
			}
			n++
			// form (2): deferred closure with a guarded delete
			var guardCell *ssa.Alloc
			for _, d := range dels {
				if d.fn == top {
					continue
				}
				deferred := false
				eachInstr(top, func(in ssa.Instruction) {
					if df, ok := in.(*ssa.Defer); ok {
						if mc, ok := df.Call.Value.(*ssa.MakeClosure); ok && mc.Fn == ssa.Value(d.fn) {
							deferred = true
						}
					}
				})
				if !deferred {
					continue
				}
				for f := range c.factsAt(d.in.Block()) {
					bo, ok := f.cond.(*ssa.BinOp)
					if !ok || !((bo.Op == token.NEQ && f.pol) || (bo.Op == token.EQL && !f.pol)) {
						continue
					}
					for _, side := range []ssa.Value{bo.X, bo.Y} {
						if u, ok := side.(*ssa.UnOp); ok && u.Op == token.MUL && isErrorType(u.Type()) {
							if cell := c.varCell(u.X); cell != nil {
								guardCell = cell
							}
						}
					}
				}
			}
			isDelete := func(in ssa.Instruction) bool {
				for _, d := range dels {
					if d.in == in {
						return true
					}
				}
				return false
			}
			var offending ssa.Instruction
			why := ""
			bad := instrReachAvoid(ins.in, func(in ssa.Instruction) bool {
				ret, ok := in.(*ssa.Return)
				if !ok || eidx >= len(ret.Results) {
					return false
				}
				v := ret.Results[eidx]
				if k, ok := v.(*ssa.Const); ok && k.Value == nil {
					return false
				}
				if guardCell != nil {
					if u, ok := v.(*ssa.UnOp); ok && u.Op == token.MUL && c.varCell(u.X) == guardCell {
						return false // the deferred closure sees exactly the error that is returned
					}
				}
				allNil := true
				for _, l := range c.originSet(v) {
					if k, ok := l.(*ssa.Const); !ok || k.Value != nil {
						allNil = false
					}
				}
				if allNil {
					return false
				}
				offending = in
				return true
			}, isDelete)
			if bad == nil {
				form := "every error exit after the mark passes through the delete"
				if guardCell != nil {
					form = "the deferred delete is guarded by the variable the function returns its error through"
				}
				r.ok(rule, key, c.at(ins.in), desc, form, true)
			} else {
				why = fmt.Sprintf("the return at %s can carry an error and is reached from the mark without the delete", c.at(offending))
				if guardCell != nil {
					why += " (the deferred delete tests " + guardCell.Comment + ", which is not the value returned there)"
				}
				r.bad(rule, key, c.at(ins.in), desc, why+": a failed or cancelled load leaves the file marked as loaded")
			}
		}
	}
	r.analysed(rule, fmt.Sprintf("%d mark/un-mark protocols on VM maps", n))
}

// ---------------------------------------------------------------------------
// R-GROUP-ALL (C11; added after seed C11c): bagof/3 and setof/3 offer one alternative per witness group.
// In the grouping loop of their common implementation every iteration reaches the append of an
// alternative; no group is dropped by a test made beforehand (a "quick reject by length" is wrong for
// setof/3, whose aggregate removes duplicates).

func ruleGroupAll(c *Ctx, r *Report) {
	const rule = "R-GROUP-ALL"
	fn := c.fn("collectionOf")
	if fn == nil {
		r.undecided(rule, "anchor:collectionOf", "-", "locate collectionOf", "not found")
		return
	}
	desc := "every witness group produced by the grouping loop becomes an alternative"
	n := 0
	for _, f := range withAnon(fn) {
		eachInstr(f, func(in ssa.Instruction) {
			call, ok := in.(*ssa.Call)
			if !ok {
				return
			}
			b, ok := call.Call.Value.(*ssa.Builtin)
			if !ok || b.Name() != "append" || len(call.Call.Args) != 2 {
				return
			}
			// appending a thunk (func(context.Context) *Promise) to the list of alternatives
			sl, ok := call.Call.Args[0].Type().Underlying().(*types.Slice)
			if !ok {
				return
			}
			sig, ok := sl.Elem().Underlying().(*types.Signature)
			if !ok || sig.Params().Len() != 1 || !isContextType(sig.Params().At(0).Type()) {
				return
			}
			n++
			key := fmt.Sprintf("%s/alternatives#%d", fname(f), n)
			found, skips := loopIterationSkips(f, call.Block(), map[*ssa.BasicBlock]bool{call.Block(): true})
			switch {
			case !found:
				r.bad(rule, key, c.at(in), desc, "the append of the alternative is not inside the grouping loop")
			case skips:
				r.bad(rule, key, c.at(in), desc, "an iteration of the grouping loop can return to the loop header without appending its alternative: that witness group is never offered")
			default:
				r.ok(rule, key, c.at(in), desc, "node-removal check: without the appending block the body entry cannot reach the back edge", true)
			}
		})
	}
	if n == 0 {
		r.bad(rule, fname(fn)+"/alternatives", c.Pos(fn.Pos()), desc, "no append of an alternative found")
	}
	r.analysed(rule, fname(fn))
}

// reachesFn: can `to` be reached from `from` in the call graph?
func (c *Ctx) reachesFn(cg *callgraph.Graph, from, to *ssa.Function) bool {
	start := cg.Nodes[from]
	if start == nil {
		return false
	}
	seen := map[*callgraph.Node]bool{}
	st := []*callgraph.Node{start}
	for len(st) > 0 {
		n := st[len(st)-1]
		st = st[:len(st)-1]
		if seen[n] {
			continue
		}
		seen[n] = true
		if n.Func == to {
			return true
		}
		for _, e := range n.Out {
			st = append(st, e.Callee)
		}
	}
	return false
}

// staticallyReaches: `to` is reachable from `from` over static calls and the closures created on the way.
func (c *Ctx) staticallyReaches(from, to *ssa.Function) bool {
	seen := map[*ssa.Function]bool{}
	st := []*ssa.Function{from}
	for len(st) > 0 {
		f := st[len(st)-1]
		st = st[:len(st)-1]
		if f == nil || seen[f] {
			continue
		}
		seen[f] = true
		if f == to {
			return true
		}
		if f.Blocks == nil {
			continue
		}
		eachInstr(f, func(in ssa.Instruction) {
			switch x := in.(type) {
			case ssa.CallInstruction:
				if cal := x.Common().StaticCallee(); cal != nil {
					st = append(st, cal)
				}
			case *ssa.MakeClosure:
				st = append(st, x.Fn.(*ssa.Function))
			}
		})
	}
	return false
}

// ---------------------------------------------------------------------------
// R-INCLUDE-GUARD (C05; added with fix F22): a recursion of the loader that is driven by the CONTENTS OF
// FILES (the function opens a source and then calls, over static calls, something that reaches the function
// again) does not end by structural descent: a file can name itself. Such a call is preceded by a record of
// what is being loaded - a store, into a field, of a value computed from the opened file's name - and by a
// branch whose condition depends on that name (the membership test). Without them ':- include(me).' in
// me.pl recurses until the Go stack limit is hit: a fatal error outside every recover and every context.

func ruleIncludeGuard(c *Ctx, r *Report) {
	const rule = "R-INCLUDE-GUARD"
	open := c.method("VM", "open")
	if open == nil {
		r.undecided(rule, "anchor:VM.open", "-", "locate VM.open", "not found")
		return
	}
	desc := "a file-driven recursion of the loader records what is being loaded and tests it before recursing"
	n := 0
	for _, fn := range c.LibFuncs() {
		if fn.Parent() != nil {
			continue
		}
		var opens []*ssa.Call
		eachInstr(fn, func(in ssa.Instruction) {
			if call, ok := in.(*ssa.Call); ok && call.Call.StaticCallee() == open {
				opens = append(opens, call)
			}
		})
		if len(opens) == 0 {
			continue
		}
		dominates := func(a, b ssa.Instruction) bool {
			if a.Block() == b.Block() {
				return instrIndex(a) < instrIndex(b)
			}
			return a.Block().Dominates(b.Block())
		}
		eachInstr(fn, func(in ssa.Instruction) {
			ci, ok := in.(ssa.CallInstruction)
			if !ok {
				return
			}
			callee := ci.Common().StaticCallee()
			if callee == nil || callee == open || !c.isLibPkg(funcPkg(callee)) || !c.staticallyReaches(callee, fn) {
				return
			}
			var op *ssa.Call
			for _, o := range opens {
				if dominates(o, in) {
					op = o
				}
			}
			if op == nil {
				return
			}
			n++
			key := fmt.Sprintf("%s/recursion-through-%s", fname(fn), callee.Name())
			// the file name: result #0 of open
			var name ssa.Value
			if refs := op.Referrers(); refs != nil {
				for _, ref := range *refs {
					if ex, ok := ref.(*ssa.Extract); ok && ex.Index == 0 {
						name = ex
					}
				}
			}
			dependsOnName := func(v ssa.Value) bool {
				hit := false
				seen := map[ssa.Value]bool{}
				var walk func(x ssa.Value, depth int)
				walk = func(x ssa.Value, depth int) {
					if x == nil || seen[x] || depth > 12 {
						return
					}
					seen[x] = true
					if x == name {
						hit = true
						return
					}
					switch y := x.(type) {
					case *ssa.Phi:
						for _, e := range y.Edges {
							walk(e, depth+1)
						}
					case *ssa.BinOp:
						walk(y.X, depth+1)
						walk(y.Y, depth+1)
					case *ssa.UnOp:
						walk(y.X, depth+1)
						// a load of a local cell: what was stored there
						if cell := c.varCell(y.X); cell != nil {
							for _, st := range c.storesTo(cell) {
								walk(st.Val, depth+1)
							}
						}
					case *ssa.Convert:
						walk(y.X, depth+1)
					case *ssa.ChangeType:
						walk(y.X, depth+1)
					case *ssa.MakeInterface:
						walk(y.X, depth+1)
					case *ssa.Extract:
						walk(y.Tuple, depth+1)
					case *ssa.Lookup:
						walk(y.X, depth+1)
						walk(y.Index, depth+1)
					case *ssa.Index:
						walk(y.X, depth+1)
					case *ssa.IndexAddr:
						walk(y.X, depth+1)
					case *ssa.Slice:
						walk(y.X, depth+1)
						for _, e := range variadicElems(y) {
							walk(e, depth+1)
						}
					case *ssa.Call:
						for _, a := range y.Call.Args {
							walk(a, depth+1)
						}
					}
				}
				walk(v, 0)
				return hit
			}
			recorded, tested := false, false
			if name != nil {
				eachInstr(fn, func(x ssa.Instruction) {
					switch y := x.(type) {
					case *ssa.Store:
						if _, isField := y.Addr.(*ssa.FieldAddr); isField && dominates(x, in) && dependsOnName(y.Val) {
							recorded = true
						}
					case *ssa.MapUpdate:
						if dominates(x, in) && dependsOnName(y.Key) {
							recorded = true
						}
					case *ssa.If:
						// the membership test may sit in a loop over the record: it need not dominate the call,
						// it has to lie before it (the call is reachable from it and does not dominate it)
						if (dominates(x, in) || (reachableFromAvoiding(x.Block(), in.Block(), nil) && !dominates(in, x))) && dependsOnName(y.Cond) {
							tested = true
						}
					}
				})
			}
			switch {
			case recorded && tested:
				r.ok(rule, key, c.at(in), desc, "the opened file's name is recorded in a field and tested by a branch before the recursive call", true)
			case !recorded:
				r.bad(rule, key, c.at(in), desc, "nothing computed from the opened file's name is recorded before this call re-enters "+fn.Name()+": a file that names itself recurses until the Go stack overflows (fatal)")
			default:
				r.bad(rule, key, c.at(in), desc, "the record of what is being loaded is never tested before this call re-enters "+fn.Name())
			}
		})
	}
	if n == 0 {
		r.info(rule, "scan/file-driven-recursion", "-", desc, "no static recursion that passes through VM.open")
	}
	r.analysed(rule, fmt.Sprintf("%d file-driven static recursions", n))
}

// ---------------------------------------------------------------------------
// R-VARIANT-BIJECTIVE (C11; added with fix F23): two witnesses belong to one group of bagof/3 / setof/3 iff
// they are variants: equal up to a ONE-TO-ONE renaming of variables. A single map from the variables of
// one term to those of the other detects that one variable would have to correspond to two, but not that
// two variables correspond to one: f(A,B) passes for a variant of f(C,C). In the variable/variable case of
// the variant test two different maps are consulted (one keyed by each side), or the one map is scanned.

func ruleVariantBijective(c *Ctx, r *Report) {
	const rule = "R-VARIANT-BIJECTIVE"
	fn := c.fn("variant")
	if fn == nil {
		r.undecided(rule, "anchor:variant", "-", "locate variant", "not found")
		return
	}
	desc := "the variant test keeps the variable correspondence in both directions"
	maps := map[ssa.Value]bool{}
	ranged := false
	nlook := 0
	eachInstr(fn, func(in ssa.Instruction) {
		switch x := in.(type) {
		case *ssa.Lookup:
			if _, ok := x.X.Type().Underlying().(*types.Map); !ok {
				return
			}
			nlook++
			for _, l := range c.originSet(x.X) {
				maps[l] = true
			}
		case *ssa.Range:
			if _, ok := x.X.Type().Underlying().(*types.Map); ok {
				ranged = true
			}
		}
	})
	key := fname(fn) + "/correspondence"
	switch {
	case len(maps) >= 2:
		r.ok(rule, key, c.Pos(fn.Pos()), desc, fmt.Sprintf("%d lookups in %d distinct maps", nlook, len(maps)), true)
	case ranged:
		r.ok(rule, key, c.Pos(fn.Pos()), desc, "one map, scanned for the inverse direction", true)
	default:
		r.bad(rule, key, c.Pos(fn.Pos()), desc, fmt.Sprintf("%d map(s) consulted, none scanned: two variables of one witness may correspond to one variable of the other - f(A,B) and f(C,C) fall into one group when the more general witness comes second", len(maps)))
	}
	// (added after seed C11g) A pair of variables is recorded as new only where BOTH directions said "not seen":
	// every store into a correspondence map lies where the comma-ok of a lookup in each of the maps is known
	// false (directly, or because it is known equal to one that is). With only the forward lookup tested, a
	// variable of the second witness that already has a partner silently gets a second one.
	if len(maps) >= 2 && !ranged {
		type look struct {
			ok ssa.Value
			m  map[ssa.Value]bool
		}
		var looks, plains []look
		eachInstr(fn, func(in ssa.Instruction) {
			l, isL := in.(*ssa.Lookup)
			if !isL {
				return
			}
			if _, isMap := l.X.Type().Underlying().(*types.Map); !isMap {
				return
			}
			if !l.CommaOk {
				// a plain lookup says "absent" when its result is known to be the zero value
				lm := map[ssa.Value]bool{}
				for _, o := range c.originSet(l.X) {
					lm[o] = true
				}
				plains = append(plains, look{l, lm})
				return
			}
			for _, ref := range *l.Referrers() {
				if e, isE := ref.(*ssa.Extract); isE && e.Index == 1 {
					lm := map[ssa.Value]bool{}
					for _, o := range c.originSet(l.X) {
						lm[o] = true
					}
					looks = append(looks, look{e, lm})
				}
			}
		})
		nst := 0
		eachInstr(fn, func(in ssa.Instruction) {
			mu, isMU := in.(*ssa.MapUpdate)
			if !isMU {
				return
			}
			hit := false
			for _, o := range c.originSet(mu.Map) {
				if maps[o] {
					hit = true
				}
			}
			if !hit {
				return
			}
			nst++
			k := fmt.Sprintf("%s/first-seen-store#%d", fname(fn), nst)
			d := "a pair of variables is recorded only where neither of them has a partner yet"
			facts := c.factsAt(in.Block())
			knownFalse := map[ssa.Value]bool{}
			for f := range facts {
				if !f.pol {
					knownFalse[f.cond] = true
				}
			}
			for changed := true; changed; {
				changed = false
				for f := range facts {
					bo, isB := f.cond.(*ssa.BinOp)
					if !isB || !((bo.Op == token.EQL && f.pol) || (bo.Op == token.NEQ && !f.pol)) {
						continue
					}
					if knownFalse[bo.X] && !knownFalse[bo.Y] {
						knownFalse[bo.Y], changed = true, true
					}
					if knownFalse[bo.Y] && !knownFalse[bo.X] {
						knownFalse[bo.X], changed = true, true
					}
				}
			}
			missing := 0
			for m := range maps {
				found := false
				for _, l := range looks {
					if l.m[m] && knownFalse[l.ok] {
						found = true
					}
				}
				for _, l := range plains {
					if !l.m[m] {
						continue
					}
					for f := range facts {
						if x, op, k, ok := cmpConst(f.cond); ok && x == l.ok && k == 0 && ((op == token.EQL && f.pol) || (op == token.NEQ && !f.pol)) {
							found = true
						}
					}
				}
				if !found {
					missing++
				}
			}
			if missing == 0 {
				r.ok(rule, k, c.at(in), d, fmt.Sprintf("lookups in all %d maps are known to have found nothing here", len(maps)), true)
			} else {
				r.bad(rule, k, c.at(in), d, fmt.Sprintf("%d of the %d correspondence maps is not known to lack an entry here: a variable that already has a partner gets a second one, so f(A,B) and f(C,C) count as variants in one direction", missing, len(maps)))
			}
		})
	}
	r.analysed(rule, fname(fn))
}

// ---------------------------------------------------------------------------
// R-VARIANT-DESCENDS (C11; added after seed C11d): two compounds are variants iff they have the same name and
// arity and their arguments are pairwise variants - for THIS pair. In the variant test every pair of
// compounds that passes the name/arity comparison reaches the loop over the arguments: no path leads from
// there back to the work list without it. A memo of compounds "already taken apart" that is keyed by one side
// only skips the arguments of a shared subterm the second time it is met - paired with a different partner.

func ruleVariantDescends(c *Ctx, r *Report) {
	const rule = "R-VARIANT-DESCENDS"
	fn := c.fn("variant")
	if fn == nil {
		r.undecided(rule, "anchor:variant", "-", "locate variant", "not found")
		return
	}
	desc := "every pair of compounds with equal name and arity has its arguments compared"
	isArityCall := func(v ssa.Value) bool {
		call, ok := v.(*ssa.Call)
		return ok && call.Call.IsInvoke() && call.Call.Method.Name() == "Arity"
	}
	// the arity comparison of the two sides (as an instruction: inside `a || b` written as a switch case it is
	// a value, not a branch condition), and the header of the loop over the arguments
	var cmp *ssa.BinOp
	var argLoop *ssa.BasicBlock
	eachInstr(fn, func(in ssa.Instruction) {
		if bo, ok := in.(*ssa.BinOp); ok && (bo.Op == token.NEQ || bo.Op == token.EQL) && isArityCall(bo.X) && isArityCall(bo.Y) {
			cmp = bo
		}
	})
	for _, b := range blocksOf(fn) {
		if bo, ok := ifCond(b).(*ssa.BinOp); ok {
			if (bo.Op == token.LSS && isArityCall(bo.Y)) || (bo.Op == token.GTR && isArityCall(bo.X)) {
				argLoop = b
			}
		}
	}
	key := fname(fn) + "/compound-pair"
	if cmp == nil || argLoop == nil {
		r.undecided(rule, key, c.Pos(fn.Pos()), desc, "the arity comparison or the loop over the arguments was not recognised")
		return
	}
	cmpBlock := cmp.Block()
	// where the arities are known equal: the frontier of the blocks that carry that fact
	equalAt := func(b *ssa.BasicBlock) bool {
		for f := range c.factsAt(b) {
			if f.cond == ssa.Value(cmp) && f.pol == (cmp.Op == token.EQL) {
				return true
			}
		}
		return false
	}
	var starts []*ssa.BasicBlock
	for _, b := range blocksOf(fn) {
		if !equalAt(b) {
			continue
		}
		for _, p := range b.Preds {
			if !equalAt(p) {
				starts = append(starts, b)
				break
			}
		}
	}
	if len(starts) == 0 {
		r.undecided(rule, key, c.Pos(fn.Pos()), desc, "no block is reached with the arities known equal")
		return
	}
	// outer loop header: a block with a back edge that dominates cmpBlock
	var H *ssa.BasicBlock
	for _, b := range blocksOf(fn) {
		back := false
		for _, p := range b.Preds {
			if b.Dominates(p) {
				back = true
			}
		}
		if back && b != argLoop && b.Dominates(cmpBlock) {
			if H == nil || H.Dominates(b) {
				H = b
			}
		}
	}
	if H == nil {
		r.undecided(rule, key, c.Pos(fn.Pos()), desc, "the work-list loop was not recognised")
		return
	}
	seen := map[*ssa.BasicBlock]bool{}
	var dfs func(b *ssa.BasicBlock) bool
	dfs = func(b *ssa.BasicBlock) bool {
		if b == argLoop {
			return false
		}
		if b == H {
			return true
		}
		if seen[b] {
			return false
		}
		seen[b] = true
		for _, s := range b.Succs {
			if dfs(s) {
				return true
			}
		}
		return false
	}
	bad := false
	for _, start := range starts {
		if dfs(start) {
			bad = true
		}
	}
	if bad {
		r.bad(rule, key, c.at(cmpBlock.Instrs[len(cmpBlock.Instrs)-1]), desc, "a pair with equal name and arity can return to the work list without its arguments having been paired: a subterm met a second time, next to a different partner, is taken for a variant unseen")
	} else {
		r.ok(rule, key, c.at(cmpBlock.Instrs[len(cmpBlock.Instrs)-1]), desc, "node-removal check: without the loop over the arguments the pair cannot get back to the work list", true)
	}
	r.analysed(rule, fname(fn))
}

// ---------------------------------------------------------------------------
// R-COPY-ALL-PARTS (C11, C10; added after seed C11j): "each collected instance is a renamed copy of its own": every
// part of it. In renamedCopy, whatever term is put INTO a structure of the result - an element of a new list or
// argument vector, a field of a new compound or partial list, the cell a partial list's tail points to - is the
// result of a recursive renamedCopy call. A part taken from the input as it stands (an unbound tail variable "that
// needs no copying") is shared between the original and every copy made of it.
func ruleCopyAllParts(c *Ctx, r *Report) {
	const rule = "R-COPY-ALL-PARTS"
	desc := "every term stored into a structure of the copy is itself a copy"
	fn := c.fn("renamedCopy")
	if fn == nil {
		r.undecided(rule, "anchor:renamedCopy", "-", desc, "not found")
		return
	}
	isTermIface := func(t types.Type) bool {
		return isEngNamed(t, "Term") || isEngNamed(t, "Compound")
	}
	addressTaken := func(al *ssa.Alloc) bool {
		for _, ref := range *al.Referrers() {
			if st, ok := ref.(*ssa.Store); ok && st.Val == ssa.Value(al) {
				return true
			}
		}
		return false
	}
	n := 0
	eachInstr(fn, func(in ssa.Instruction) {
		st, ok := in.(*ssa.Store)
		if !ok || !isTermIface(st.Val.Type()) || isPtr(st.Val.Type()) {
			return
		}
		part := ""
		switch a := st.Addr.(type) {
		case *ssa.IndexAddr:
			part = "an element"
		case *ssa.FieldAddr:
			if _, isAlloc := a.X.(*ssa.Alloc); isAlloc {
				part = "the field " + fieldName(a)
			}
		case *ssa.Alloc:
			if addressTaken(a) {
				part = "the cell " + a.Comment
			}
		}
		if part == "" {
			return
		}
		n++
		key := fmt.Sprintf("%s/store#%d(%s)", fname(fn), n, strings.TrimPrefix(part, "the "))
		bad := ""
		for _, l := range c.originSet(st.Val) {
			if e, ok := l.(*ssa.Extract); ok && e.Index == 0 {
				if call, ok := e.Tuple.(*ssa.Call); ok && call.Call.StaticCallee() == fn {
					continue
				}
			}
			bad = valName(l)
		}
		if bad == "" {
			r.ok(rule, key, c.at(in), desc, "the result of a recursive renamedCopy call", true)
		} else {
			r.bad(rule, key, c.at(in), desc, part+" of the copy receives "+bad+", which is not a copy: that part (an unbound tail variable, say) is shared by the original and by every copy made of it - two collected solutions share one tail")
		}
	})
	if n == 0 {
		r.undecided(rule, fname(fn)+"/stores", c.Pos(fn.Pos()), desc, "no store of a term into a structure of the result found")
	}
}
