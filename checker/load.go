package main

import (
	"fmt"
	"go/token"
	"go/types"
	"os"
	"sort"
	"strings"

	"golang.org/x/tools/go/packages"
	"golang.org/x/tools/go/ssa"
	"golang.org/x/tools/go/ssa/ssautil"
)

const (
	rootPkgPath   = "github.com/ichiban/prolog"
	enginePkgPath = "github.com/ichiban/prolog/engine"
)

// LoadConfig describes one build configuration of /repo to analyse.
type LoadConfig struct {
	Dir     string            // repository root
	GOARCH  string            // "" = host
	Overlay map[string][]byte // in-memory file replacements (mutants)
}

// Program is the loaded, type-checked and SSA-built repository.
type Program struct {
	Cfg    LoadConfig
	Fset   *token.FileSet
	Pkgs   []*packages.Package // every package matched by ./...
	Prog   *ssa.Program
	Engine *ssa.Package
	Root   *ssa.Package
	EngPkg *packages.Package
	RootPk *packages.Package
	Sizes  types.Sizes

	libFuncs []*ssa.Function // all functions (incl. anonymous, methods, instantiations) of the two library packages
}

func repoDir() string {
	if d := os.Getenv("PVCHECK_REPO"); d != "" {
		return d
	}
	return "/repo"
}

// Load loads ./... of the repository with the verif tag and builds SSA.
// Any type error, missing library package or zero-package result is an error:
// an unanalysed tree must never be reported as holding.
func Load(cfg LoadConfig) (*Program, error) {
	if cfg.Dir == "" {
		cfg.Dir = repoDir()
	}
	env := append(os.Environ(),
		"GOFLAGS=-mod=mod",
		"GOPROXY=off",
		"GOSUMDB=off",
		"GOTOOLCHAIN=local",
		"GOWORK=off",
		"CGO_ENABLED=0",
	)
	if cfg.GOARCH != "" {
		env = append(env, "GOARCH="+cfg.GOARCH)
	}
	cfg.Overlay = canonicalOverlay(cfg.Dir, cfg.Overlay) // new single-expression predicate helpers are analysed inline (canon.go)
	fset := token.NewFileSet()
	pc := &packages.Config{
		Mode:       packages.LoadAllSyntax,
		Dir:        cfg.Dir,
		Env:        env,
		Fset:       fset,
		Tests:      false,
		BuildFlags: []string{"-tags=verif"},
		Overlay:    cfg.Overlay,
	}
	pkgs, err := packages.Load(pc, "./...")
	if err != nil {
		return nil, fmt.Errorf("packages.Load: %w", err)
	}
	if len(pkgs) == 0 {
		return nil, fmt.Errorf("no packages loaded from %s", cfg.Dir)
	}
	var errs []string
	packages.Visit(pkgs, nil, func(p *packages.Package) {
		for _, e := range p.Errors {
			errs = append(errs, e.Error())
		}
	})
	if len(errs) > 0 {
		sort.Strings(errs)
		if len(errs) > 10 {
			errs = errs[:10]
		}
		return nil, fmt.Errorf("type/load errors: %s", strings.Join(errs, "; "))
	}

	prog, _ := ssautil.AllPackages(pkgs, ssa.InstantiateGenerics)
	prog.Build()

	p := &Program{Cfg: cfg, Fset: fset, Pkgs: pkgs, Prog: prog}
	for _, pk := range pkgs {
		switch pk.PkgPath {
		case enginePkgPath:
			p.EngPkg = pk
			p.Engine = prog.Package(pk.Types)
			p.Sizes = pk.TypesSizes
		case rootPkgPath:
			p.RootPk = pk
			p.Root = prog.Package(pk.Types)
		}
	}
	if p.Engine == nil || p.Root == nil {
		return nil, fmt.Errorf("library packages %s and %s not both loaded (%d packages)", rootPkgPath, enginePkgPath, len(pkgs))
	}
	p.collectLibFuncs()
	unspillReturns(p.libFuncs)
	return p, nil
}

func (p *Program) isLibPkg(pkg *ssa.Package) bool {
	return pkg != nil && (pkg == p.Engine || pkg == p.Root)
}

// funcPkg returns the package a function belongs to, following instantiation
// origins and enclosing functions of closures.
func funcPkg(fn *ssa.Function) *ssa.Package {
	for fn != nil {
		if fn.Pkg != nil {
			return fn.Pkg
		}
		if o := fn.Origin(); o != nil && o != fn {
			fn = o
			continue
		}
		if fn.Parent() != nil {
			fn = fn.Parent()
			continue
		}
		return nil
	}
	return nil
}

func (p *Program) collectLibFuncs() {
	all := ssautil.AllFunctions(p.Prog)
	var fns []*ssa.Function
	for fn := range all {
		if fn.Blocks == nil {
			continue
		}
		if fn.Synthetic != "" && !strings.Contains(fn.Synthetic, "instance of") && fn.Synthetic != "package initializer" {
			// wrappers, bounds, thunks: they only forward.
			continue
		}
		if p.isLibPkg(funcPkg(fn)) {
			fns = append(fns, fn)
		}
	}
	sort.Slice(fns, func(i, j int) bool {
		pi, pj := p.Fset.Position(fns[i].Pos()), p.Fset.Position(fns[j].Pos())
		if pi.Filename != pj.Filename {
			return pi.Filename < pj.Filename
		}
		if pi.Line != pj.Line {
			return pi.Line < pj.Line
		}
		if pi.Column != pj.Column {
			return pi.Column < pj.Column
		}
		return fns[i].String() < fns[j].String()
	})
	p.libFuncs = fns
}

// LibFuncs returns every function with a body in the two library packages.
func (p *Program) LibFuncs() []*ssa.Function { return p.libFuncs }

// Pos renders a position relative to the repository root.
func (p *Program) Pos(pos token.Pos) string {
	if !pos.IsValid() {
		return "-"
	}
	ps := p.Fset.Position(pos)
	f := strings.TrimPrefix(ps.Filename, p.Cfg.Dir+"/")
	return fmt.Sprintf("%s:%d", f, ps.Line)
}

func (p *Program) PosCol(pos token.Pos) string {
	if !pos.IsValid() {
		return "-"
	}
	ps := p.Fset.Position(pos)
	f := strings.TrimPrefix(ps.Filename, p.Cfg.Dir+"/")
	return fmt.Sprintf("%s:%d:%d", f, ps.Line, ps.Column)
}

// unspillReturns undoes go/ssa's "defer-spilled returns" where that is exact. In a function with a defer statement
// every `return v` is built as `*slot = v; rundefers; t = *slot; return t` - so that a deferred closure could
// still change a named result. When the slot is referred to by nothing but such stores and loads (no closure
// captures it, its address goes nowhere), the load yields the value just stored, and the rules - which look at
// what a return returns - are shown that value. Without this a `defer mu.Unlock()` added to a function makes
// every rule that reads its constant results blind (met with seed C05h, where two rules of C08 raised false
// alarms on a change that does not touch the order of terms).
func unspillReturns(fns []*ssa.Function) int {
	n := 0
	for _, fn := range fns {
		if fn.Recover == nil && !hasDefer(fn) {
			continue
		}
		for _, b := range fn.Blocks {
			if len(b.Instrs) == 0 {
				continue
			}
			ret, ok := b.Instrs[len(b.Instrs)-1].(*ssa.Return)
			if !ok {
				continue
			}
			for i, res := range ret.Results {
				ld, ok := res.(*ssa.UnOp)
				if !ok || ld.Op != token.MUL || ld.Block() != b {
					continue
				}
				slot, ok := ld.X.(*ssa.Alloc)
				if !ok || !plainSlot(slot) {
					continue
				}
				// the last store to the slot before the load, in this block, with nothing but rundefers in between
				var val ssa.Value
				for j := len(b.Instrs) - 1; j >= 0; j-- {
					if st, ok := b.Instrs[j].(*ssa.Store); ok && st.Addr == ssa.Value(slot) {
						val = st.Val
						break
					}
				}
				if val == nil {
					continue
				}
				ret.Results[i] = val
				if refs := val.Referrers(); refs != nil {
					*refs = append(*refs, ret)
				}
				n++
			}
		}
	}
	return n
}

func hasDefer(fn *ssa.Function) bool {
	for _, b := range fn.Blocks {
		for _, in := range b.Instrs {
			if _, ok := in.(*ssa.Defer); ok {
				return true
			}
		}
	}
	return false
}

func plainSlot(a *ssa.Alloc) bool {
	if a.Referrers() == nil {
		return false
	}
	for _, r := range *a.Referrers() {
		switch x := r.(type) {
		case *ssa.Store:
			if x.Addr != ssa.Value(a) {
				return false
			}
		case *ssa.UnOp:
			if x.Op != token.MUL {
				return false
			}
		case *ssa.DebugRef:
		default:
			return false
		}
	}
	return true
}

// blocksOf: the blocks of fn without a dead recover block. A function with a defer statement gets a block that
// runs after a deferred call has recovered from a panic (it returns whatever the result slots hold). When no
// deferred callee of the function can call recover() - a deferred Unlock, a deferred closure without recover -
// that block is dead; its return of "whatever the slots hold" would otherwise look like a path that returns
// every value stored anywhere in the function.
func blocksOf(fn *ssa.Function) []*ssa.BasicBlock {
	if fn.Recover == nil || !deadRecover(fn) {
		return fn.Blocks
	}
	out := make([]*ssa.BasicBlock, 0, len(fn.Blocks))
	for _, b := range fn.Blocks {
		if b != fn.Recover {
			out = append(out, b)
		}
	}
	return out
}

var deadRecoverMemo = map[*ssa.Function]bool{}

func deadRecover(fn *ssa.Function) bool {
	if v, ok := deadRecoverMemo[fn]; ok {
		return v
	}
	dead := true
	for _, b := range fn.Blocks {
		for _, in := range b.Instrs {
			d, ok := in.(*ssa.Defer)
			if !ok {
				continue
			}
			var callee *ssa.Function
			switch v := d.Call.Value.(type) {
			case *ssa.Function:
				callee = v
			case *ssa.MakeClosure:
				callee, _ = v.Fn.(*ssa.Function)
			}
			switch {
			case d.Call.IsInvoke() || callee == nil:
				dead = false // unknown callee: it may recover
			case callee.Pkg != nil && callee.Pkg.Pkg.Path() == "sync":
			case len(callee.Blocks) == 0:
				dead = false
			default:
				for _, cb := range callee.Blocks {
					for _, ci := range cb.Instrs {
						if c, ok := ci.(ssa.CallInstruction); ok {
							if bi, ok := c.Common().Value.(*ssa.Builtin); ok && bi.Name() == "recover" {
								dead = false
							} else if _, isBuiltin := c.Common().Value.(*ssa.Builtin); !isBuiltin {
								dead = false // it calls something else: that may recover
							}
						}
					}
				}
			}
		}
	}
	deadRecoverMemo[fn] = dead
	return dead
}
