package main

// SelfTestSummary is the result of the checker self-validation (thorough tier).
type SelfTestSummary struct {
	Breaking         int      `json:"mutants_breaking"`
	BreakingDetected int      `json:"mutants_breaking_detected"`
	Neutral          int      `json:"neutral"`
	NeutralSilent    int      `json:"neutral_silent"`
	Stale            int      `json:"stale"`
	Failures         []string `json:"failures"`
	Details          []string `json:"details"`
}

func runSelfTest(pd *Property, seed int64) *SelfTestSummary { return &SelfTestSummary{} }
func runMutantChild(name string) int                         { return 2 }
func runSelfTestAll(seed int64) int                          { return 2 }
