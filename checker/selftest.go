package main

import (
	"encoding/json"
	"fmt"
	"os"
	"os/exec"
	"path/filepath"
	"sort"
	"strings"
	"sync"
)

// Variant is one self-test case: a textual edit of one repository file, applied in memory
// (packages.Config.Overlay) — the disk is never touched.
type Variant struct {
	Name      string
	Prop      string // property whose rule it exercises
	Rule      string // rule expected to report (breaking) / stay silent (neutral)
	File      string // path relative to the repository root
	Old, New  string // Old must occur exactly once in the current file, else the variant is stale
	Edits     []Edit // further edits (other files or other places)
	Patch     string // alternatively: a unified diff under /verif (seeded change), applied in memory
	Transform string // alternatively: a behaviour-preserving AST rewrite of every library file (transforms.go)
	Breaking  bool
	Expect    string // substring expected in the reported construct key (breaking only)
	Note      string
}

type Edit struct {
	File     string
	Old, New string
}

// SelfTestSummary is the result of the checker self-validation (thorough tier).
type SelfTestSummary struct {
	Breaking         int      `json:"mutants_breaking"`
	BreakingDetected int      `json:"mutants_breaking_detected"`
	Neutral          int      `json:"neutral"`
	NeutralSilent    int      `json:"neutral_silent"`
	Stale            int      `json:"stale"`
	Failures         []string `json:"failures"`
	Details          []string `json:"details"`
}

type mutantResult struct {
	Name      string   `json:"name"`
	Stale     bool     `json:"stale"`
	LoadError string   `json:"load_error,omitempty"`
	Reported  []string `json:"reported"` // "rule|key|status" of violated/undecided obligations of the variant's rule
	Others    []string `json:"others"`   // violations of other rules of the same property
}

func findVariant(name string) *Variant {
	for i := range variants {
		if variants[i].Name == name {
			return &variants[i]
		}
	}
	return nil
}

func (v *Variant) overlay(dir string) (map[string][]byte, bool) {
	if v.Transform != "" {
		return transformOverlay(dir, v.Transform)
	}
	if v.Patch != "" {
		b, err := os.ReadFile(filepath.Join(verifDir(), v.Patch))
		if err != nil {
			return nil, false
		}
		return applyUnifiedDiff(dir, string(b))
	}
	edits := append([]Edit{{v.File, v.Old, v.New}}, v.Edits...)
	ov := map[string][]byte{}
	for _, e := range edits {
		path := filepath.Join(dir, e.File)
		cur, ok := ov[path]
		if !ok {
			b, err := os.ReadFile(path)
			if err != nil {
				return nil, false
			}
			cur = b
		}
		s := string(cur)
		if strings.Count(s, e.Old) != 1 {
			return nil, false
		}
		ov[path] = []byte(strings.Replace(s, e.Old, e.New, 1))
	}
	return ov, true
}

// runMutantChild analyses one variant in this process and prints the result as JSON.
func runMutantChild(name string) int {
	v := findVariant(name)
	if v == nil {
		fmt.Fprintln(os.Stderr, "unknown variant", name)
		return 2
	}
	res := mutantResult{Name: name}
	ov, ok := v.overlay(repoDir())
	if !ok {
		res.Stale = true
		b, _ := json.Marshal(res)
		fmt.Println("MUTANT-RESULT " + string(b))
		return 0
	}
	pd := findProperty(v.Prop)
	if pd == nil {
		fmt.Fprintln(os.Stderr, "unknown property", v.Prop)
		return 2
	}
	one := *pd
	one.Rules = nil
	for _, r := range pd.Rules {
		if r.ID == v.Rule || v.Rule == "*" {
			one.Rules = append(one.Rules, r)
		}
	}
	rep, _ := runOne(&one, LoadConfig{Overlay: ov}, "quick")
	known, _ := loadKnown()
	for _, o := range rep.Obs {
		if o.Status != Violated && o.Status != Undecided {
			continue
		}
		if o.Rule == "LOAD" {
			res.LoadError = o.Why
			continue
		}
		if known != nil && known.match(v.Prop, o) != nil {
			continue
		}
		res.Reported = append(res.Reported, o.Rule+"|"+o.Key+"|"+o.Status.String())
	}
	b, _ := json.Marshal(res)
	fmt.Println("MUTANT-RESULT " + string(b))
	return 0
}

func runVariants(vs []*Variant, seed int64) *SelfTestSummary {
	st := &SelfTestSummary{}
	if len(vs) == 0 {
		return st
	}
	// deterministic order, rotated by the seed
	sort.Slice(vs, func(i, j int) bool { return vs[i].Name < vs[j].Name })
	if seed != 0 {
		k := int(uint64(seed) % uint64(len(vs)))
		vs = append(vs[k:], vs[:k]...)
	}
	self, err := os.Executable()
	if err != nil {
		st.Failures = append(st.Failures, "cannot locate own executable: "+err.Error())
		return st
	}
	results := make([]*mutantResult, len(vs))
	errs := make([]string, len(vs))
	sem := make(chan struct{}, 8)
	var wg sync.WaitGroup
	for i, v := range vs {
		wg.Add(1)
		go func(i int, v *Variant) {
			defer wg.Done()
			sem <- struct{}{}
			defer func() { <-sem }()
			cmd := exec.Command(self, "-mutant", v.Name)
			cmd.Env = os.Environ()
			out, err := cmd.CombinedOutput()
			for _, line := range strings.Split(string(out), "\n") {
				if strings.HasPrefix(line, "MUTANT-RESULT ") {
					var r mutantResult
					if json.Unmarshal([]byte(strings.TrimPrefix(line, "MUTANT-RESULT ")), &r) == nil {
						results[i] = &r
					}
				}
			}
			if results[i] == nil {
				errs[i] = fmt.Sprintf("variant %s: child failed: %v: %s", v.Name, err, tail(string(out), 300))
			}
		}(i, v)
	}
	wg.Wait()
	for i, v := range vs {
		r := results[i]
		switch {
		case r == nil:
			st.Failures = append(st.Failures, errs[i])
		case r.Stale:
			st.Stale++
			st.Details = append(st.Details, fmt.Sprintf("%s: stale (anchor text no longer present in the tree under test)", v.Name))
		case r.LoadError != "":
			st.Failures = append(st.Failures, fmt.Sprintf("variant %s does not type-check: %s", v.Name, tail(r.LoadError, 200)))
		case v.Breaking:
			st.Breaking++
			hit := false
			for _, rep := range r.Reported {
				if strings.HasPrefix(rep, v.Rule+"|") && strings.Contains(rep, v.Expect) {
					hit = true
				}
			}
			if hit {
				st.BreakingDetected++
				st.Details = append(st.Details, fmt.Sprintf("%s: breaking, detected by %s (%s)", v.Name, v.Rule, strings.Join(r.Reported, "; ")))
			} else {
				st.Failures = append(st.Failures, fmt.Sprintf("breaking variant %s NOT reported by %s with key containing %q (reported: %v)", v.Name, v.Rule, v.Expect, r.Reported))
			}
		default:
			st.Neutral++
			if len(r.Reported) == 0 {
				st.NeutralSilent++
				st.Details = append(st.Details, fmt.Sprintf("%s: neutral, silent", v.Name))
			} else {
				st.Failures = append(st.Failures, fmt.Sprintf("neutral variant %s raised a false alarm: %v", v.Name, r.Reported))
			}
		}
	}
	return st
}

func tail(s string, n int) string {
	s = strings.TrimSpace(s)
	if len(s) > n {
		return "…" + s[len(s)-n:]
	}
	return s
}

func runSelfTest(pd *Property, seed int64) *SelfTestSummary {
	var vs []*Variant
	for i := range variants {
		if variants[i].Prop == pd.ID {
			vs = append(vs, &variants[i])
		}
	}
	return runVariants(vs, seed)
}

func runSelfTestAll(seed int64) int {
	var vs []*Variant
	for i := range variants {
		vs = append(vs, &variants[i])
	}
	st := runVariants(vs, seed)
	for _, d := range st.Details {
		fmt.Println(d)
	}
	for _, f := range st.Failures {
		fmt.Println("FAIL:", f)
	}
	fmt.Printf("self-test: breaking %d/%d detected, neutral %d/%d silent, %d stale, %d failures\n",
		st.BreakingDetected, st.Breaking, st.NeutralSilent, st.Neutral, st.Stale, len(st.Failures))
	if len(st.Failures) > 0 {
		return 1
	}
	return 0
}

// applyUnifiedDiff applies a `git diff` to the files under dir in memory. Every hunk's old lines must be
// found exactly (at the stated position or, failing that, at a unique other position); otherwise the patch
// is stale.
func applyUnifiedDiff(dir, diff string) (map[string][]byte, bool) {
	ov := map[string][]byte{}
	lines := strings.Split(diff, "\n")
	var file string
	var content []string
	flush := func() {
		if file != "" {
			ov[filepath.Join(dir, file)] = []byte(strings.Join(content, "\n"))
		}
	}
	offset := 0
	for i := 0; i < len(lines); i++ {
		l := lines[i]
		switch {
		case strings.HasPrefix(l, "+++ b/"):
			flush()
			file = strings.TrimPrefix(l, "+++ b/")
			b, err := os.ReadFile(filepath.Join(dir, file))
			if err != nil {
				return nil, false
			}
			content = strings.Split(string(b), "\n")
			offset = 0
		case strings.HasPrefix(l, "@@ "):
			var oldStart, oldLen, newStart, newLen int
			oldLen, newLen = 1, 1
			hdr := strings.Fields(l)
			if len(hdr) < 3 {
				return nil, false
			}
			parse := func(s string, a, b *int) {
				s = strings.TrimLeft(s, "-+")
				if k := strings.Index(s, ","); k >= 0 {
					fmt.Sscanf(s[:k], "%d", a)
					fmt.Sscanf(s[k+1:], "%d", b)
				} else {
					fmt.Sscanf(s, "%d", a)
				}
			}
			parse(hdr[1], &oldStart, &oldLen)
			parse(hdr[2], &newStart, &newLen)
			var oldL, newL []string
			j := i + 1
			for ; j < len(lines); j++ {
				h := lines[j]
				if strings.HasPrefix(h, "@@ ") || strings.HasPrefix(h, "diff --git") || strings.HasPrefix(h, "--- ") {
					break
				}
				switch {
				case strings.HasPrefix(h, "+"):
					newL = append(newL, h[1:])
				case strings.HasPrefix(h, "-"):
					oldL = append(oldL, h[1:])
				case strings.HasPrefix(h, " "):
					oldL = append(oldL, h[1:])
					newL = append(newL, h[1:])
				case h == "" && j == len(lines)-1:
				case strings.HasPrefix(h, "\\"):
				default:
					oldL = append(oldL, h)
					newL = append(newL, h)
				}
			}
			i = j - 1
			match := func(at int) bool {
				if at < 0 || at+len(oldL) > len(content) {
					return false
				}
				for k := range oldL {
					if content[at+k] != oldL[k] {
						return false
					}
				}
				return true
			}
			at := oldStart - 1 + offset
			if !match(at) {
				found := -1
				for k := 0; k+len(oldL) <= len(content); k++ {
					if match(k) {
						if found >= 0 {
							return nil, false
						}
						found = k
					}
				}
				if found < 0 {
					return nil, false
				}
				at = found
			}
			nc := append([]string{}, content[:at]...)
			nc = append(nc, newL...)
			nc = append(nc, content[at+len(oldL):]...)
			content = nc
			offset += len(newL) - len(oldL)
		}
	}
	flush()
	return ov, len(ov) > 0
}
