package main

import (
	"fmt"
	"go/constant"
	"go/token"
	"go/types"
	"sort"
	"strings"

	"golang.org/x/tools/go/ssa"
)

// baseOfAddr strips FieldAddr/IndexAddr chains and returns the root pointer and the access path.
func baseOfAddr(addr ssa.Value) (ssa.Value, []string) {
	var path []string
	for {
		switch a := addr.(type) {
		case *ssa.FieldAddr:
			path = append([]string{fieldName(a)}, path...)
			addr = a.X
		case *ssa.IndexAddr:
			path = append([]string{"[]"}, path...)
			addr = a.X
		default:
			return addr, path
		}
	}
}

// structStores enumerates all stores in library code whose address lies inside a value of the named
// engine struct type (through any chain of field selections, including embedded structs).
type structStore struct {
	fn    *ssa.Function
	store *ssa.Store
	base  ssa.Value
	path  []string
}

func (c *Ctx) storesIntoStruct(pkgPath, typ string) []structStore {
	var out []structStore
	for _, fn := range c.LibFuncs() {
		eachInstr(fn, func(in ssa.Instruction) {
			st, ok := in.(*ssa.Store)
			if !ok {
				return
			}
			// walk the chain; stop at the first pointer whose element is the struct type
			addr := st.Addr
			var path []string
			for {
				if pt, ok := addr.Type().Underlying().(*types.Pointer); ok {
					if n, ok := pt.Elem().(*types.Named); ok && n.Obj().Name() == typ && n.Obj().Pkg() != nil && n.Obj().Pkg().Path() == pkgPath {
						if _, isStruct := n.Underlying().(*types.Struct); isStruct {
							out = append(out, structStore{fn, st, addr, path})
							return
						}
					}
				}
				switch a := addr.(type) {
				case *ssa.FieldAddr:
					path = append([]string{fieldName(a)}, path...)
					addr = a.X
				case *ssa.IndexAddr:
					path = append([]string{"[]"}, path...)
					addr = a.X
				default:
					return
				}
			}
		})
	}
	return out
}

// freshAlloc: v is an allocation made in its own function (local variable, new(T), &T{…}).
func freshAlloc(v ssa.Value) bool {
	_, ok := v.(*ssa.Alloc)
	return ok
}

// callSitesOf returns the static call sites of fn in library code.
func (c *Ctx) callSitesOf(target *ssa.Function) []ssa.CallInstruction {
	var out []ssa.CallInstruction
	for _, fn := range c.LibFuncs() {
		eachInstr(fn, func(in ssa.Instruction) {
			ci, ok := in.(ssa.CallInstruction)
			if !ok {
				return
			}
			if ci.Common().StaticCallee() == target {
				out = append(out, ci)
			}
		})
	}
	return out
}

// funcValueUses: is fn used as a value (stored, passed) anywhere, i.e. may it be called dynamically?
func (c *Ctx) usedAsValue(target *ssa.Function) bool {
	used := false
	for _, fn := range c.LibFuncs() {
		eachInstr(fn, func(in ssa.Instruction) {
			for i, op := range in.Operands(nil) {
				if op == nil || *op != ssa.Value(target) {
					continue
				}
				if ci, ok := in.(ssa.CallInstruction); ok && i == 0 && ci.Common().Value == ssa.Value(target) {
					continue
				}
				used = true
			}
		})
	}
	return used
}

// ---------------------------------------------------------------------------
// R-ENV-IMMUT

func ruleEnvImmut(c *Ctx, r *Report) {
	const rule = "R-ENV-IMMUT"
	stores := c.storesIntoStruct(enginePkgPath, "Env")
	desc := "environment nodes are written only while still private to the writer (path copying)"
	viaRecv := map[*ssa.Function]bool{}
	for _, s := range stores {
		key := fmt.Sprintf("%s/store(%s)", fname(s.fn), strings.Join(append([]string{valName(s.base)}, s.path...), "."))
		switch b := s.base.(type) {
		case *ssa.Alloc:
			r.ok(rule, key, c.at(s.store), desc, "target is an allocation of this function (fresh copy or new node)", true)
		case *ssa.Parameter:
			if len(s.fn.Params) > 0 && s.fn.Params[0] == b && s.fn.Signature.Recv() != nil {
				viaRecv[s.fn] = true
				r.ok(rule, key, c.at(s.store), desc, "target is the receiver; discharged by the call-site obligations of "+fname(s.fn), true)
			} else {
				r.bad(rule, key, c.at(s.store), desc, "store through a parameter: the node may be shared with older environments")
			}
		default:
			r.bad(rule, key, c.at(s.store), desc, fmt.Sprintf("store through %s (%T): the node may be reachable from an older environment, so untaken alternatives and failed unifications would see the binding", valName(s.base), s.base))
		}
	}
	for fn := range viaRecv {
		if c.usedAsValue(fn) {
			r.bad(rule, fname(fn)+"/method-value", c.Pos(fn.Pos()), "in-place Env method is only called on fresh copies", "the method is used as a value; its receivers cannot be enumerated")
			continue
		}
		sites := c.callSitesOf(fn)
		if len(sites) == 0 {
			r.info(rule, fname(fn)+"/callsites", c.Pos(fn.Pos()), "in-place Env method is only called on fresh copies", "no call site")
		}
		for _, cs := range sites {
			recv := cs.Common().Args[0]
			key := fmt.Sprintf("%s/call %s(%s)", fname(cs.Parent()), fn.Name(), valName(recv))
			if freshAlloc(recv) {
				r.ok(rule, key, c.at(cs), "in-place Env method is only called on fresh copies", "receiver is a local allocation of the caller", true)
			} else {
				r.bad(rule, key, c.at(cs), "in-place Env method is only called on fresh copies", "receiver "+valName(recv)+" is not a local copy: shared tree nodes would be rotated in place")
			}
		}
	}
	// no store may reach the global root: the only stores whose value is loaded from / is the global are in init.
	if g := c.global("rootEnv"); g != nil {
		n := 0
		for _, in := range c.globalRefs(g) {
			if st, ok := in.(*ssa.Store); ok && st.Addr == g && !strings.HasPrefix(in.Parent().Name(), "init") {
				n++
				r.bad(rule, fname(in.Parent())+"/store(rootEnv)", c.at(in), "the root environment is assigned only by the package initialiser", "assigned at run time")
			}
		}
		if n == 0 {
			r.ok(rule, "rootEnv/assign", c.Pos(g.Pos()), "the root environment is assigned only by the package initialiser", "no run-time store to the variable", true)
		}
	}
	r.analysed(rule, fmt.Sprintf("%d stores into Env nodes", len(stores)))
}

// ---------------------------------------------------------------------------
// R-PARAM-THREAD

type threadRow struct {
	recvType string // "" for package-level function
	fn       string
	param    string
	why      string
	contOnly bool // only recursive calls made from continuations (func(*Env) *Promise) and from the function itself
}

var threadRows = []threadRow{
	{"Env", "unify", "occursCheck", "dropping it makes unify_with_occurs_check/2 check only the top level", false},
	{"VM", "exec", "vars", "a different variable frame breaks per-activation variables", false},
	{"VM", "exec", "cont", "a different continuation changes which goals run after the clause", false},
	{"VM", "exec", "cutParent", "a different barrier changes the scope of cut", true}, // the thunk after a cut re-bases the barrier: R-CUT-REBASE
	{"", "contains", "s", "the occurs check would look for a different term", false},
	{"", "contains", "env", "the occurs check would resolve under a different environment", false},
	{"", "renamedCopy", "copied", "a fresh map per level destroys variable sharing inside copies", false},
	{"", "renamedCopy", "env", "the copy would resolve under a different environment", false},
	{"", "simplify", "simplified", "a fresh map per level loses sharing / loops on cyclic terms", false},
	{"", "simplify", "env", "would resolve under a different environment", false},
	{"", "cyclicTerm", "env", "would resolve under a different environment", false},
}

func (c *Ctx) lookupFn(recvType, name string) *ssa.Function {
	if recvType == "" {
		return c.fn(name)
	}
	return c.method(recvType, name)
}

func ruleParamThread(rows []threadRow) func(c *Ctx, r *Report) {
	return func(c *Ctx, r *Report) {
		const rule = "R-PARAM-THREAD"
		for _, row := range rows {
			fn := c.lookupFn(row.recvType, row.fn)
			if fn == nil {
				r.undecided(rule, "anchor:"+row.fn, "-", "locate function "+row.fn, "not found")
				continue
			}
			pidx := -1
			for i, p := range fn.Params {
				if p.Name() == row.param {
					pidx = i
				}
			}
			if pidx < 0 {
				r.undecided(rule, fmt.Sprintf("anchor:%s.%s", row.fn, row.param), c.Pos(fn.Pos()), "locate parameter "+row.param, "not found")
				continue
			}
			param := fn.Params[pidx]
			nsites := 0
			for _, f := range withAnon(fn) {
				eachInstr(f, func(in ssa.Instruction) {
					ci, ok := in.(ssa.CallInstruction)
					if !ok || ci.Common().StaticCallee() != fn {
						return
					}
					if row.contOnly && f != fn && !(f.Signature.Params().Len() == 1 && c.isEnvPtr(f.Signature.Params().At(0).Type())) {
						return
					}
					nsites++
					arg := ci.Common().Args[pidx]
					key := fmt.Sprintf("%s/recursive-call[%d].%s", fname(f), nsites, row.param)
					desc := fmt.Sprintf("recursive call of %s passes its own %s unchanged", fn.Name(), row.param)
					good := true
					var badLeaf ssa.Value
					c.origins(arg, func(l ssa.Value) {
						if l == ssa.Value(param) {
							return
						}
						// lazy initialisation `if p == nil { p = make(...) }`
						if mm, ok := l.(*ssa.MakeMap); ok {
							for f := range c.factsAt(mm.Block()) {
								if bo, ok := f.cond.(*ssa.BinOp); ok && f.pol && bo.Op == token.EQL && (c.isParamLoad(bo.X, param) || c.isParamLoad(bo.Y, param)) {
									return
								}
							}
						}
						good = false
						if badLeaf == nil {
							badLeaf = l
						}
					})
					if good {
						r.ok(rule, key, c.at(ci), desc, "every origin of the argument is the parameter itself (or its nil-guarded lazy initialisation)", true)
					} else {
						r.bad(rule, key, c.at(ci), desc, fmt.Sprintf("argument may be %s (%T): %s", valName(badLeaf), badLeaf, row.why))
					}
				})
			}
			if nsites == 0 {
				r.info(rule, fmt.Sprintf("%s.%s", fname(fn), row.param), c.Pos(fn.Pos()), "recursive calls thread "+row.param, "function has no recursive call")
			}
			// re-entry through a wrapper that fixes the parameter (added after seed C02c: the argument swap in
			// unify called the public Unify, which always passes occursCheck = false)
			wrappers := map[*ssa.Function]string{}
			for _, site := range c.callSitesOf(fn) {
				w := site.Parent()
				if topFunc(w) == fn || w == fn {
					continue
				}
				if pidx >= len(site.Common().Args) {
					continue
				}
				fixed := true
				for _, l := range c.originSet(site.Common().Args[pidx]) {
					if _, isConst := l.(*ssa.Const); !isConst {
						fixed = false
					}
				}
				if fixed {
					wrappers[w] = valName(site.Common().Args[pidx])
				}
			}
			nw := 0
			for _, f := range withAnon(fn) {
				eachInstr(f, func(in ssa.Instruction) {
					ci, ok := in.(ssa.CallInstruction)
					if !ok {
						return
					}
					w := ci.Common().StaticCallee()
					if w == nil {
						return
					}
					if fixedTo, isW := wrappers[w]; isW {
						nw++
						r.bad(rule, fmt.Sprintf("%s/re-entry-through-%s.%s", fname(f), w.Name(), row.param), c.at(ci),
							fmt.Sprintf("%s does not re-enter itself through a wrapper that fixes %s", fn.Name(), row.param),
							fmt.Sprintf("%s calls %s, which calls %s with %s = %s: %s", fn.Name(), w.Name(), fn.Name(), row.param, fixedTo, row.why))
					}
				})
			}
			if nw == 0 && len(wrappers) > 0 {
				r.ok(rule, fmt.Sprintf("%s/no-re-entry-through-wrapper.%s", fname(fn), row.param), c.Pos(fn.Pos()),
					fmt.Sprintf("%s does not re-enter itself through a wrapper that fixes %s", fn.Name(), row.param),
					fmt.Sprintf("%d wrappers fix the parameter to a constant; none is called from %s", len(wrappers), fn.Name()), true)
			}
		}
		r.analysed(rule, fmt.Sprintf("%d (function, parameter) rows", len(rows)))
	}
}

// isParamLoad: v is the parameter or a load of its spill cell.
func (c *Ctx) isParamLoad(v ssa.Value, p *ssa.Parameter) bool {
	if v == ssa.Value(p) {
		return true
	}
	ok, _ := c.comesOnlyFrom(v, func(l ssa.Value) bool {
		if l == ssa.Value(p) {
			return true
		}
		_, isMM := l.(*ssa.MakeMap)
		return isMM
	})
	return ok
}

// ---------------------------------------------------------------------------
// R-OCCURS-SITE: in unify, binding a variable happens only after the occurs check said no
// (or the check was not requested).

func ruleOccursSite(c *Ctx, r *Report) {
	const rule = "R-OCCURS-SITE"
	unify := c.method("Env", "unify")
	bind := c.method("Env", "bind")
	contains := c.fn("contains")
	if unify == nil || bind == nil || contains == nil {
		r.undecided(rule, "anchor", "-", "locate unify, bind, contains", "not found")
		return
	}
	var occ *ssa.Parameter
	for _, p := range unify.Params {
		if b, ok := p.Type().Underlying().(*types.Basic); ok && b.Kind() == types.Bool {
			occ = p
		}
	}
	if occ == nil {
		r.undecided(rule, "anchor:occursCheck", c.Pos(unify.Pos()), "locate the occurs-check flag (bool parameter) of unify", "not found")
		return
	}
	n := 0
	eachInstr(unify, func(in ssa.Instruction) {
		call, ok := in.(*ssa.Call)
		if !ok || call.Call.StaticCallee() != bind {
			return
		}
		n++
		key := fmt.Sprintf("%s/bind[%d]", fname(unify), n)
		desc := "every path to bind crosses the false edge of `occursCheck` or of the contains() test"
		reach := reachableAvoiding(unify, call.Block(), func(from *ssa.BasicBlock, i int, cond ssa.Value) bool {
			if cond == nil || i != 1 {
				return false
			}
			if cond == ssa.Value(occ) {
				return true
			}
			if cc, ok := cond.(*ssa.Call); ok && cc.Call.StaticCallee() == contains {
				// the check must be about the two terms being unified and the current environment
				return true
			}
			return false
		})
		if reach {
			r.bad(rule, key, c.at(call), desc, "bind is reachable on a path where the occurs check was requested and not performed: unify_with_occurs_check/2 would build cyclic terms")
		} else {
			r.ok(rule, key, c.at(call), desc, "cut-set check: removing those two false edges disconnects bind from the entry", true)
		}
	})
	// the contains() call inside unify must test the variable being bound against the other term
	eachInstr(unify, func(in ssa.Instruction) {
		call, ok := in.(*ssa.Call)
		if !ok || call.Call.StaticCallee() != contains {
			return
		}
		// arguments: (y, x, e): second must be a Variable-typed value (the variable to bind)
		a1 := call.Call.Args[1]
		key := fmt.Sprintf("%s/contains-args", fname(unify))
		if mi, ok := a1.(*ssa.MakeInterface); ok && isEngNamed(mi.X.Type(), "Variable") {
			r.ok(rule, key, c.at(call), "occurs check looks for the variable being bound", "second argument is the Variable of this case", false)
		} else {
			r.bad(rule, key, c.at(call), "occurs check looks for the variable being bound", "second argument is not the Variable of the variable case")
		}
	})
	r.analysed(rule, fname(unify))
}

// ---------------------------------------------------------------------------
// R-OCCURS-DEEP (C02; added after seed C02b): the occurs check walks the whole term as it stands under the
// environment: it recurses (a) into the referent of a bound variable, obtained from the environment, and
// (b) into every argument of a compound (index not constant), and uses the results. A check that stops at
// a bound variable misses X inside f(Y) with Y bound to g(X): unify_with_occurs_check builds a cyclic term.

func ruleOccursDeep(c *Ctx, r *Report) {
	const rule = "R-OCCURS-DEEP"
	contains := c.fn("contains")
	lookup := c.method("Env", "lookup")
	resolve := c.method("Env", "Resolve")
	if contains == nil || (lookup == nil && resolve == nil) {
		r.undecided(rule, "anchor", "-", "locate contains, Env.lookup", "not found")
		return
	}
	var viaBinding, viaArg ssa.Instruction
	nrec := 0
	eachInstr(contains, func(in ssa.Instruction) {
		call, ok := in.(*ssa.Call)
		if !ok || call.Call.StaticCallee() != contains || len(call.Call.Args) == 0 {
			return
		}
		nrec++
		if refs := call.Referrers(); refs == nil || len(*refs) == 0 {
			return // result dropped
		}
		for _, l := range c.originSet(call.Call.Args[0]) {
			cl, _ := callOfValue(l)
			if cl == nil {
				continue
			}
			switch {
			case cl.Call.StaticCallee() != nil && (cl.Call.StaticCallee() == lookup || cl.Call.StaticCallee() == resolve):
				viaBinding = in
			case cl.Call.IsInvoke() && cl.Call.Method.Name() == "Arg":
				if _, isConst := cl.Call.Args[0].(*ssa.Const); !isConst {
					viaArg = in
				}
			}
		}
	})
	key := fname(contains)
	if viaBinding != nil {
		r.ok(rule, key+"/through-binding", c.at(viaBinding), "the occurs check recurses into the referent of a bound variable", "recursive call on the value the environment holds for the variable", true)
	} else {
		r.bad(rule, key+"/through-binding", c.Pos(contains.Pos()), "the occurs check recurses into the referent of a bound variable", "no recursive call on a value obtained from the environment: the check stops at a bound variable and misses the variable inside its referent")
	}
	if viaArg != nil {
		r.ok(rule, key+"/through-arguments", c.at(viaArg), "the occurs check recurses into every argument of a compound", "recursive call on Arg(i) with a computed index", true)
	} else {
		r.bad(rule, key+"/through-arguments", c.Pos(contains.Pos()), "the occurs check recurses into every argument of a compound", "no recursive call on Arg(i) with a computed index")
	}
	r.analysed(rule, fmt.Sprintf("%s: %d recursive calls", fname(contains), nrec))
}

// ---------------------------------------------------------------------------
// R-FUNCTOR-ARITY (C01, C02, C10; added after seed C01b): a compound is identified by its name AND its
// arity: foo(a) and foo(a,b) have nothing in common. Wherever the functor name of a compound is compared
// (c.Functor() == …, c.functor == …), the arity of the same value is examined in the same function
// (Arity() call or the length of its argument vector). A name-only match lets a clause head, a control
// construct or a unification treat f/1 as f/2 - and then reads arguments that are not there.

var functorArityAllow = map[string]string{
	"engine.writeCompoundOpInfix": "spacing of ',' and '|' only; the caller dispatched on an infix operator and Arity()==2 (writeCompoundOp is selected by o.specifier.arity() == c.Arity())",
}

func ruleFunctorArity(c *Ctx, r *Report) {
	const rule = "R-FUNCTOR-ARITY"
	desc := "a functor-name comparison is paired with an examination of the same compound's arity"
	n := 0
	for _, fn := range c.LibFuncs() {
		seen := map[string]int{}
		eachInstr(fn, func(in ssa.Instruction) {
			bo, ok := in.(*ssa.BinOp)
			if !ok || (bo.Op != token.EQL && bo.Op != token.NEQ) {
				return
			}
			for _, side := range []ssa.Value{bo.X, bo.Y} {
				var recv ssa.Value
				switch x := side.(type) {
				case *ssa.Call:
					switch {
					case x.Call.IsInvoke() && x.Call.Method.Name() == "Functor":
						recv = x.Call.Value
					case x.Call.StaticCallee() != nil && x.Call.StaticCallee().Name() == "Functor" && x.Call.StaticCallee().Signature.Recv() != nil:
						recv = x.Call.Args[0]
					}
				case *ssa.UnOp:
					if fa, ok := x.X.(*ssa.FieldAddr); ok && x.Op == token.MUL && fieldName(fa) == "functor" && isEngNamed(deref(fa.X.Type()), "compound") {
						recv = fa.X
					}
				}
				if recv == nil {
					continue
				}
				n++
				base := fmt.Sprintf("%s/%s", fname(fn), stableName(recv))
				seen[base]++
				key := fmt.Sprintf("%s#%d", base, seen[base])
				found := false
				eachInstr(fn, func(in2 ssa.Instruction) {
					switch y := in2.(type) {
					case *ssa.Call:
						if y.Call.IsInvoke() && y.Call.Method.Name() == "Arity" && (y.Call.Value == recv || c.sameVar(y.Call.Value, recv)) {
							found = true
						}
						if f := y.Call.StaticCallee(); f != nil && f.Name() == "Arity" && f.Signature.Recv() != nil && len(y.Call.Args) > 0 && y.Call.Args[0] == recv {
							found = true
						}
						if b, ok := y.Call.Value.(*ssa.Builtin); ok && b.Name() == "len" {
							if u, ok := y.Call.Args[0].(*ssa.UnOp); ok {
								if fa, ok := u.X.(*ssa.FieldAddr); ok && fa.X == recv && fieldName(fa) == "args" {
									found = true
								}
							}
						}
					}
				})
				switch {
				case found:
					r.ok(rule, key, c.at(in), desc, "the arity of the same value is examined in this function", false)
				case functorArityAllow[fname(fn)] != "":
					r.ok(rule, key, c.at(in), desc, "confirmed by reading: "+functorArityAllow[fname(fn)], false)
				default:
					r.bad(rule, base, c.at(in), desc, "the name of "+valName(recv)+" is compared but its arity is never examined in this function: a compound of the same name and another arity matches")
				}
			}
		})
	}
	r.analysed(rule, fmt.Sprintf("%d functor-name comparisons", n))
}

// ---------------------------------------------------------------------------
// R-COMPOUND-UNIFORM: every non-struct representation of a compound (slice- or string-backed) is a
// list cell: Functor() is the constant '.' atom and Arity() is 2.

func ruleCompoundUniform(c *Ctx, r *Report) {
	const rule = "R-COMPOUND-UNIFORM"
	comp := c.compoundIface()
	if comp == nil {
		r.undecided(rule, "anchor:Compound", "-", "locate Compound", "not found")
		return
	}
	dot := c.global("atomDot")
	dotIsDot := false
	if dot != nil {
		for _, in := range c.globalRefs(dot) {
			st, ok := in.(*ssa.Store)
			if !ok || st.Addr != dot {
				continue
			}
			if call, ok := st.Val.(*ssa.Call); ok && call.Call.StaticCallee() == c.fn("NewAtom") {
				if k, ok := call.Call.Args[0].(*ssa.Const); ok && k.Value != nil && k.Value.ExactString() == `"."` {
					dotIsDot = true
				}
			}
		}
	}
	if dotIsDot {
		r.ok(rule, "atomDot/init", c.Pos(dot.Pos()), "the list functor atom is '.'", `initialised with NewAtom(".")`, false)
	} else {
		r.bad(rule, "atomDot/init", "-", "the list functor atom is '.'", "global not found or not initialised with NewAtom(\".\")")
	}
	for _, t := range c.termImplementers() {
		if !types.Implements(t, comp) {
			continue
		}
		switch deref(t).Underlying().(type) {
		case *types.Slice, *types.Basic:
		default:
			continue
		}
		for _, m := range []string{"Functor", "Arity"} {
			sel := c.Prog.MethodSets.MethodSet(t).Lookup(c.Engine.Pkg, m)
			key := fmt.Sprintf("%s.%s", typeName(t), m)
			desc := "list encoding reports the principal functor './2"
			if sel == nil {
				r.bad(rule, key, "-", desc, "method missing")
				continue
			}
			fn := c.Prog.MethodValue(sel)
			okAll, nret := true, 0
			eachInstr(fn, func(in ssa.Instruction) {
				ret, ok := in.(*ssa.Return)
				if !ok {
					return
				}
				nret++
				c.origins(ret.Results[0], func(l ssa.Value) {
					switch m {
					case "Functor":
						ld, ok := l.(*ssa.UnOp)
						if !ok || ld.Op != token.MUL || ld.X != ssa.Value(dot) {
							okAll = false
						}
					case "Arity":
						if k, ok := constInt(l); !ok || k != 2 {
							okAll = false
						}
					}
				})
			})
			if okAll && nret > 0 {
				r.ok(rule, key, c.Pos(fn.Pos()), desc, "every return yields the constant", true)
			} else {
				r.bad(rule, key, c.Pos(fn.Pos()), desc, "a return yields something else: code written against Compound would see a different principal functor for this encoding of a list")
			}
		}
	}
	r.analysed(rule, "slice- and string-backed Compound implementers")
}

// ---------------------------------------------------------------------------
// R-UNIFY-ABSTRACT (C02; added after seed C02d): unification is defined on the abstract term, "whatever the
// term representation". The unifier looks at its operands only through the term abstraction: type
// assertions to Variable and Compound, the Compound methods Functor/Arity/Arg, and == on atomic terms. Any
// other view of an operand - an assertion to a concrete representation or to a foreign interface
// (fmt.Stringer), a method such as String() - decides by representation: a character list and a code list
// with the same text have equal String() and are not unifiable.

func ruleUnifyAbstract(c *Ctx, r *Report) {
	const rule = "R-UNIFY-ABSTRACT"
	unify := c.method("Env", "unify")
	if unify == nil {
		r.undecided(rule, "anchor:unify", "-", "locate Env.unify", "not found")
		return
	}
	desc := "the unifier inspects its operands only through Variable, Compound, Functor/Arity/Arg and =="
	allowedAssert := map[string]bool{"engine.Variable": true, "engine.Compound": true}
	allowedMethod := map[string]bool{"Functor": true, "Arity": true, "Arg": true}
	n := 0
	bad := 0
	eachInstr(unify, func(in ssa.Instruction) {
		switch x := in.(type) {
		case *ssa.TypeAssert:
			if !isEngNamed(x.X.Type(), "Term") && !isEngNamed(x.X.Type(), "Compound") {
				return
			}
			n++
			if !allowedAssert[typeName(x.AssertedType)] {
				bad++
				r.bad(rule, fmt.Sprintf("%s/assert(%s)", fname(unify), typeName(x.AssertedType)), c.at(in), desc, "an operand is asserted to "+typeName(x.AssertedType)+": the outcome then depends on how the term happens to be represented")
			}
		case *ssa.Call:
			if !x.Call.IsInvoke() {
				return
			}
			if !isEngNamed(x.Call.Value.Type(), "Term") && !isEngNamed(x.Call.Value.Type(), "Compound") && !types.IsInterface(x.Call.Value.Type()) {
				return
			}
			// only invocations on values derived from the operands
			n++
			if !allowedMethod[x.Call.Method.Name()] {
				bad++
				r.bad(rule, fmt.Sprintf("%s/invoke(%s)", fname(unify), x.Call.Method.Name()), c.at(in), desc, "the method "+x.Call.Method.Name()+" is invoked on an operand: unification decided by a representation-specific view")
			}
		}
	})
	if bad == 0 {
		r.ok(rule, fname(unify)+"/views", c.Pos(unify.Pos()), desc, fmt.Sprintf("%d assertions and interface invocations, all within the term abstraction", n), true)
	}
	r.analysed(rule, fname(unify))
}

// ---------------------------------------------------------------------------
// R-PARTIAL-SPINE (C05, C02; added after seed C05d): a *partial shares a list's cells and stands for
// "these cells with T in place of the final []". Its accessors walk the shared spine WITHOUT an environment
// ((*partial).Arg asserts every cdr to be a Compound), so the spine has to be a proper list as it stands,
// with no variable in it - bound or not. Wherever a partial is built around an existing compound (not by the
// constructor that builds the cells itself), that compound has been walked to its end by a ListIterator
// whose Env is nil. Walking it under the current environment accepts [a|T] with T bound: the first access to
// the shared result panics (interface conversion: Variable is not Compound) - in a later goal, or
// unrecovered in Solutions.Scan.

func rulePartialSpine(c *Ctx, r *Report) {
	const rule = "R-PARTIAL-SPINE"
	desc := "a partial list is built around an existing compound only after its spine was checked without following bindings"
	n := 0
	for _, fn := range c.LibFuncs() {
		if funcPkg(fn) != c.Engine {
			continue
		}
		top := topFunc(fn)
		if top.Signature.Recv() != nil && isEngNamed(deref(top.Signature.Recv().Type()), "partial") {
			continue // the type's own methods re-wrap sub-spines of an already checked spine
		}
		seen := 0
		eachInstr(fn, func(in ssa.Instruction) {
			st, ok := in.(*ssa.Store)
			if !ok {
				return
			}
			fa, ok := st.Addr.(*ssa.FieldAddr)
			if !ok || fieldName(fa) != "Compound" || !isEngNamed(deref(fa.X.Type()), "partial") {
				return
			}
			// value built in this function from fresh cells (constructor) is fine
			fresh := true
			fromCheckedSpine := func(v ssa.Value) bool {
				// the Compound field of an existing partial (already a checked spine)
				for _, l := range c.originSet(v) {
					ld, ok := l.(*ssa.UnOp)
					if !ok || ld.Op != token.MUL {
						return false
					}
					fa2, ok := ld.X.(*ssa.FieldAddr)
					if !ok || fieldName(fa2) != "Compound" || !isEngNamed(deref(fa2.X.Type()), "partial") {
						return false
					}
				}
				return true
			}
			for _, l := range c.originSet(st.Val) {
				switch x := l.(type) {
				case *ssa.Alloc:
				case *ssa.ChangeType:
					if !isEngNamed(x.Type(), "list") { // a Go slice as a list: a proper spine by construction
						fresh = false
					}
				case *ssa.Convert:
					if !isEngNamed(x.Type(), "list") {
						fresh = false
					}
				case *ssa.Slice, *ssa.MakeSlice:
				case *ssa.Parameter:
					if !isEngNamed(x.Type(), "list") {
						if _, isSlice := x.Type().Underlying().(*types.Slice); !isSlice {
							fresh = false
						}
					}
				case *ssa.Call:
					f := x.Call.StaticCallee()
					switch {
					case f != nil && (f.Name() == "List" || f.Name() == "Cons" || f.Name() == "PartialList"):
					case f != nil && len(x.Call.Args) > 0 && (c.stableFuncName(f) == "renamedCopy" || c.stableFuncName(f) == "simplify") && fromCheckedSpine(x.Call.Args[0]):
						// a copy of the spine of an existing partial: the copy of a proper list is a proper list
					default:
						fresh = false
					}
				case *ssa.Extract:
					if cl, ok := x.Tuple.(*ssa.Call); ok {
						f := cl.Call.StaticCallee()
						if f != nil && len(cl.Call.Args) > 0 && (c.stableFuncName(f) == "renamedCopy" || c.stableFuncName(f) == "simplify") && fromCheckedSpine(cl.Call.Args[0]) {
							break
						}
					}
					fresh = false
				default:
					fresh = false
				}
			}
			if fresh {
				return
			}
			n++
			seen++
			key := fmt.Sprintf("%s/partial#%d", fname(fn), seen)
			// a ListIterator in this function over the same value with Env == nil
			checked := false
			type itInfo struct {
				list   []ssa.Value
				envNil bool
			}
			its := map[ssa.Value]*itInfo{}
			eachInstr(fn, func(x ssa.Instruction) {
				s2, ok := x.(*ssa.Store)
				if !ok {
					return
				}
				f2, ok := s2.Addr.(*ssa.FieldAddr)
				if !ok || !isEngNamed(deref(f2.X.Type()), "ListIterator") {
					return
				}
				if its[f2.X] == nil {
					its[f2.X] = &itInfo{envNil: true}
				}
				switch fieldName(f2) {
				case "List":
					its[f2.X].list = c.originSet(s2.Val)
				case "Env":
					if k, ok := s2.Val.(*ssa.Const); !ok || k.Value != nil {
						its[f2.X].envNil = false
					}
				}
			})
			for _, it := range its {
				if it.envNil && sameLeafSetByName(it.list, c.originSet(st.Val)) {
					checked = true
				}
			}
			if checked {
				r.ok(rule, key, c.at(in), desc, "walked by a ListIterator with Env == nil", true)
			} else {
				r.bad(rule, fmt.Sprintf("%s/partial", fname(fn)), c.at(in), desc, "the compound is wrapped without a walk of its spine under Env == nil: a bound variable in the spine ([a|T], T = [b]) is accepted, and the first access to the shared result panics")
			}
		})
	}
	if n == 0 {
		r.info(rule, "scan/partial", "-", desc, "no partial is built around an existing compound")
	}
	r.analysed(rule, fmt.Sprintf("%d constructions of a partial around an existing compound", n))
}

// ---------------------------------------------------------------------------
// R-PARTIAL-BOTH-PARTS (C11, C02; added after seed C11e): a partial list is a prefix AND a tail.  A function
// that takes a *partial apart through its fields instead of through the Compound interface (a fast path over a
// representation) has to look at both: every engine function that reads the field partial.Compound also reads
// partial.tail - on the same operand or not, anywhere in the function (closures included).  A walk over the
// prefix alone never sees a variable that stands only in the tail: bagof/3's free-variable set loses a witness,
// a copy loses a binding, a test for groundness answers wrongly.
func rulePartialBothParts(c *Ctx, r *Report) {
	const rule = "R-PARTIAL-BOTH-PARTS"
	desc := "a function that reads the prefix field of a partial list reads its tail field too"
	type use struct {
		prefix, tail ssa.Instruction
	}
	uses := map[*ssa.Function]*use{}
	for _, fn := range c.LibFuncs() {
		if funcPkg(fn) != c.Engine {
			continue
		}
		top := topFunc(fn)
		eachInstr(fn, func(in ssa.Instruction) {
			var fa interface {
				ssa.Instruction
				ssa.Value
			}
			name := ""
			switch x := in.(type) {
			case *ssa.FieldAddr:
				if isEngNamed(deref(x.X.Type()), "partial") {
					fa, name = x, fieldName(x)
				}
			case *ssa.Field:
				if isEngNamed(x.X.Type(), "partial") {
					if st, ok := x.X.Type().Underlying().(*types.Struct); ok {
						fa, name = x, st.Field(x.Field).Name()
					}
				}
			}
			if fa == nil {
				return
			}
			// a read: the address is loaded (not only stored to)
			read := false
			if refs := fa.Referrers(); refs != nil {
				for _, ref := range *refs {
					switch u := ref.(type) {
					case *ssa.UnOp:
						read = true
					case *ssa.Store:
						if u.Addr != ssa.Value(fa) {
							read = true
						}
					default:
						read = true
					}
				}
			}
			if _, isField := in.(*ssa.Field); isField {
				read = true
			}
			if !read {
				return
			}
			u := uses[top]
			if u == nil {
				u = &use{}
				uses[top] = u
			}
			switch name {
			case "Compound":
				if u.prefix == nil {
					u.prefix = in
				}
			case "tail":
				if u.tail == nil {
					u.tail = in
				}
			}
		})
	}
	var fns []*ssa.Function
	for fn := range uses {
		fns = append(fns, fn)
	}
	sort.Slice(fns, func(i, j int) bool { return fname(fns[i]) < fname(fns[j]) })
	n := 0
	for _, fn := range fns {
		u := uses[fn]
		if u.prefix == nil {
			continue
		}
		n++
		key := fname(fn) + "/partial.Compound"
		if u.tail != nil {
			r.ok(rule, key, c.at(u.prefix), desc, "the tail is read at "+c.at(u.tail), true)
		} else {
			r.bad(rule, key, c.at(u.prefix), desc, "the function walks the prefix of a partial list and never looks at its tail: a variable (or any subterm) that stands only in the tail is invisible to it")
		}
	}
	if n == 0 {
		r.info(rule, "scan/partial.Compound", "-", desc, "no function reads the prefix field of a partial list")
	}
}

// ---------------------------------------------------------------------------
// R-BIND-RESOLVED (C16, C02; added after seed C16f): Env.bind does not unify, it overwrites.  Outside the
// unifier a built-in may call it only for a variable it has just seen unbound IN THE VERY ENVIRONMENT it binds
// in: the variable argument of the bind is the result of a Resolve on the same environment value (asserted to
// Variable), with no unification in between - which is the case exactly when both calls have the same SSA
// value as their receiver.  A bind in the continuation of another unification (`Unify(elem, e, func(env) {
// return k(env.bind(n, i)) })`) overwrites whatever that unification has bound the variable to:
// nth0(N, [5,1,7], N) answers 0, 1 and 2.  (The call-context variable of the VM is rebound on purpose.)
func ruleBindResolved(c *Ctx, r *Report) {
	const rule = "R-BIND-RESOLVED"
	desc := "outside the unifier a variable is bound only in the environment in which it was just resolved unbound"
	bind := c.method("Env", "bind")
	resolve := c.method("Env", "Resolve")
	if bind == nil || resolve == nil {
		r.undecided(rule, "anchor:Env.bind/Resolve", "-", "locate Env.bind and Env.Resolve", "not found")
		return
	}
	n := 0
	for _, fn := range c.LibFuncs() {
		if funcPkg(fn) != c.Engine || recvNamed(topFunc(fn)) == "Env" {
			continue
		}
		k := 0
		eachInstr(fn, func(in ssa.Instruction) {
			call, ok := in.(*ssa.Call)
			if !ok || call.Call.StaticCallee() != bind || len(call.Call.Args) < 3 {
				return
			}
			n++
			k++
			key := fmt.Sprintf("%s/bind#%d", fname(fn), k)
			recv, v := call.Call.Args[0], call.Call.Args[1]
			// the VM's context variable
			for _, l := range c.originSet(v) {
				if ld, ok := l.(*ssa.UnOp); ok && ld.Op == token.MUL {
					if g, ok := ld.X.(*ssa.Global); ok && g.Name() == "varContext" {
						r.ok(rule, key, c.at(in), desc, "the call-context variable of the VM, rebound at every call by design", false)
						return
					}
				}
			}
			good := false
			leaves := c.originSet(v) // looks through the type switch that found a Variable
			good = len(leaves) > 0
			for _, o := range leaves {
				rc, ok := o.(*ssa.Call)
				if !ok || rc.Call.StaticCallee() != resolve || rc.Parent() != fn || !(rc.Call.Args[0] == recv || c.sameVar(rc.Call.Args[0], recv)) {
					good = false
				}
			}
			if good {
				r.ok(rule, key, c.at(in), desc, "the variable is the result of Resolve on the same environment value", true)
			} else {
				r.bad(rule, key, c.at(in), desc, "the variable was not resolved in the environment it is bound in (a unification may have bound it in between): bind overwrites that binding and the predicate answers tuples outside its relation")
			}
		})
	}
	if n == 0 {
		r.info(rule, "scan/bind", "-", desc, "no built-in calls Env.bind directly")
	}
}

// ---------------------------------------------------------------------------
// R-TERM-SLICE-APPEND (C02; added after seed C02g): terms are immutable values - unification "binds variables,
// it never changes a term". A list term whose Go representation is a slice shares its backing array with every
// other term that was built from it; Go's append writes into that array whenever it has spare capacity. The
// first argument of append is therefore never (a reslice or conversion of) a value of a slice-typed term type
// that was obtained from a term: two append/3 calls on one findall/3 result would overwrite each other's answer.
func ruleTermSliceAppend(c *Ctx, r *Report) {
	const rule = "R-TERM-SLICE-APPEND"
	desc := "Go's append never grows a slice that is (part of) an existing term"
	termIface, _ := c.engType("Term").Underlying().(*types.Interface)
	isTermSlice := func(t types.Type) bool {
		n, ok := t.(*types.Named)
		if !ok || n.Obj().Pkg() == nil || n.Obj().Pkg().Path() != enginePkgPath {
			return false
		}
		if _, isSlice := n.Underlying().(*types.Slice); !isSlice {
			return false
		}
		return termIface != nil && types.Implements(n, termIface)
	}
	n, napp := 0, 0
	for _, fn := range c.LibFuncs() {
		k := 0
		eachInstr(fn, func(in ssa.Instruction) {
			call, ok := in.(*ssa.Call)
			if !ok {
				return
			}
			b, ok := call.Call.Value.(*ssa.Builtin)
			if !ok || b.Name() != "append" || len(call.Call.Args) == 0 {
				return
			}
			napp++
			// walk to the origins of the first argument, through reslices and conversions
			seen := map[ssa.Value]bool{}
			var bad ssa.Value
			fresh := true
			var walk func(v ssa.Value, viaOwnAppend bool)
			walk = func(v ssa.Value, viaOwnAppend bool) {
				if v == nil || seen[v] {
					return
				}
				seen[v] = true
				switch x := v.(type) {
				case *ssa.MakeSlice, *ssa.Const:
					return
				case *ssa.Slice:
					if _, isAlloc := x.X.(*ssa.Alloc); isAlloc {
						return // a literal
					}
					walk(x.X, viaOwnAppend)
					return
				case *ssa.Convert:
					walk(x.X, viaOwnAppend)
					return
				case *ssa.ChangeType:
					walk(x.X, viaOwnAppend)
					return
				case *ssa.Phi:
					for _, e := range x.Edges {
						walk(e, viaOwnAppend)
					}
					return
				case *ssa.Call:
					if bb, ok := x.Call.Value.(*ssa.Builtin); ok && bb.Name() == "append" {
						walk(x.Call.Args[0], true)
						return
					}
				case *ssa.UnOp:
					if x.Op == token.MUL {
						if cell := c.varCell(x.X); cell != nil && !c.cellEscapes(cell) {
							for _, st := range c.storesTo(cell) {
								walk(st.Val, viaOwnAppend)
							}
							return
						}
					}
				}
				if isTermSlice(v.Type()) {
					fresh = false
					bad = v
				}
			}
			walk(call.Call.Args[0], false)
			// only report on slices of terms
			if !involvesTermSlice(seen, isTermSlice) {
				return
			}
			n++
			k++
			key := fmt.Sprintf("%s/append#%d", fname(fn), k)
			if fresh {
				r.ok(rule, key, c.at(in), desc, "the slice that grows was made here (make, literal, nil or an earlier append to such a slice)", true)
			} else {
				r.bad(rule, key, c.at(in), desc, "the slice that grows is a term obtained elsewhere ("+valName(bad)+"): with spare capacity append writes into the array it shares with the terms built from it - a term already handed out changes (append(L,[x],A), append(L,[y],B) leaves A = [..,y])")
			}
		})
	}
	if n == 0 {
		r.info(rule, "scan/append", "-", desc, fmt.Sprintf("none of the %d append calls of the library grows a slice-typed term", napp))
	}
	r.analysed(rule, fmt.Sprintf("%d append calls, %d on slice-typed terms", napp, n))
}

func involvesTermSlice(seen map[ssa.Value]bool, isTermSlice func(types.Type) bool) bool {
	for v := range seen {
		if isTermSlice(v.Type()) {
			return true
		}
	}
	return false
}

// ---------------------------------------------------------------------------
// R-OCCURS-CHECK-ALWAYS (C02; added after seed C02i): unify_with_occurs_check/2 is "unification with the occurs
// check" for EVERY pair of terms - whether a pair is subject to occurs check cannot be told from "no variable in
// common" (f(X, X) and f(Y, g(Y)) have none). The Go function registered for it reaches the unifier only with the
// check switched on: neither it nor its closures call the plain unification (the built-in Unify, Env.Unify).
func ruleOccursCheckAlways(c *Ctx, r *Report) {
	const rule = "R-OCCURS-CHECK-ALWAYS"
	desc := "unify_with_occurs_check/2 never falls back to unification without the check"
	fn := c.registeredFn("unify_with_occurs_check", 2)
	if fn == nil {
		r.undecided(rule, "anchor:unify_with_occurs_check/2", "-", desc, "not registered")
		return
	}
	plain := map[*ssa.Function]bool{}
	if f := c.fn("Unify"); f != nil {
		plain[f] = true
	}
	if f := c.method("Env", "Unify"); f != nil {
		plain[f] = true
	}
	var bad ssa.Instruction
	ncalls := 0
	for _, g := range withAnon(fn) {
		eachInstr(g, func(in ssa.Instruction) {
			if ci, ok := in.(ssa.CallInstruction); ok {
				if callee := ci.Common().StaticCallee(); callee != nil {
					ncalls++
					if plain[callee] {
						bad = in
					}
				}
			}
		})
	}
	key := fname(fn) + "/unifier"
	if bad != nil {
		r.bad(rule, key, c.at(bad), desc, "the plain unification is called: a pair of terms that shares no variable can still have only an infinite unifier (f(X, X) = f(Y, g(Y))), which the predicate must refuse")
	} else {
		r.ok(rule, key, c.Pos(fn.Pos()), desc, fmt.Sprintf("%d static calls, none of the plain unification", ncalls), true)
	}
}

// ---------------------------------------------------------------------------
// R-UNIFY-FAILS-IN-ARMS (C01, C02; added after seed C01j): two terms fail to unify for one of three reasons - the
// kinds do not match, names or arities differ, or a pair of arguments fails. In Env.unify every return of the
// constant false lies inside the case analysis on the resolved operands: its block carries a fact from a type
// test of a resolved operand. A failure decided before that analysis (a pre-test of list lengths) has to redo the
// unifier's reasoning about representations in a few lines - and gets [a,b|T] with T = [] wrong.
func ruleUnifyFailsInArms(c *Ctx, r *Report) {
	const rule = "R-UNIFY-FAILS-IN-ARMS"
	desc := "the unifier reports failure only from inside its case analysis on the resolved operands"
	fn := c.method("Env", "unify")
	if fn == nil {
		r.undecided(rule, "anchor:Env.unify", "-", desc, "not found")
		return
	}
	n := 0
	eachInstr(fn, func(in ssa.Instruction) {
		ret, ok := in.(*ssa.Return)
		if !ok || len(ret.Results) != 2 {
			return
		}
		k, isConst := ret.Results[1].(*ssa.Const)
		if !isConst || k.Value == nil || constant.BoolVal(k.Value) {
			return
		}
		n++
		key := fmt.Sprintf("%s/failure#%d", fname(fn), n)
		inArms := false
		for f := range c.factsAt(in.Block()) {
			if e, ok := f.cond.(*ssa.Extract); ok && e.Index == 1 {
				if _, ok := e.Tuple.(*ssa.TypeAssert); ok {
					inArms = true
				}
			}
		}
		// ... and is decided by the unifier's own comparisons (kinds, names, arities, a pair of arguments, the occurs
		// check), not by a helper predicate that judges the two terms on its own
		helper := ""
		for f := range c.guardsOf(fn).in[in.Block()] {
			if call, ok := f.cond.(*ssa.Call); ok && f.pol {
				if callee := call.Call.StaticCallee(); callee != nil && c.isLibPkg(funcPkg(callee)) && c.stableFuncName(callee) != "contains" {
					helper = callee.Name()
				}
			}
		}
		if inArms && helper != "" {
			r.bad(rule, key, c.at(in), desc, "failure is decided by the helper predicate "+helper+", not by a comparison of kinds, names, arities or arguments: a pre-test that judges the two terms on its own (a count of list elements) gets representations wrong - [a,b|T] with T = [] no longer unifies with [_, _]")
			return
		}
		if inArms {
			r.ok(rule, key, c.at(in), desc, "under a type test of an operand", true)
		} else {
			r.bad(rule, key, c.at(in), desc, "failure is returned where no type test of an operand has been made: a pre-test outside the case analysis decides unifiability on its own, and what it gets wrong (a partial list whose tail is bound to []) makes unifiable terms fail")
		}
	})
	if n == 0 {
		r.undecided(rule, fname(fn)+"/failures", c.Pos(fn.Pos()), desc, "no return of the constant false found")
	}
}
