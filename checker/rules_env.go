package main

import (
	"fmt"
	"go/token"
	"go/types"
	"strings"

	"golang.org/x/tools/go/ssa"
)

// baseOfAddr strips FieldAddr/IndexAddr chains and returns the root pointer and the access path.
func baseOfAddr(addr ssa.Value) (ssa.Value, []string) {
	var path []string
	for {
		switch a := addr.(type) {
		case *ssa.FieldAddr:
			path = append([]string{fieldName(a)}, path...)
			addr = a.X
		case *ssa.IndexAddr:
			path = append([]string{"[]"}, path...)
			addr = a.X
		default:
			return addr, path
		}
	}
}

// structStores enumerates all stores in library code whose address lies inside a value of the named
// engine struct type (through any chain of field selections, including embedded structs).
type structStore struct {
	fn    *ssa.Function
	store *ssa.Store
	base  ssa.Value
	path  []string
}

func (c *Ctx) storesIntoStruct(pkgPath, typ string) []structStore {
	var out []structStore
	for _, fn := range c.LibFuncs() {
		eachInstr(fn, func(in ssa.Instruction) {
			st, ok := in.(*ssa.Store)
			if !ok {
				return
			}
			// walk the chain; stop at the first pointer whose element is the struct type
			addr := st.Addr
			var path []string
			for {
				if pt, ok := addr.Type().Underlying().(*types.Pointer); ok {
					if n, ok := pt.Elem().(*types.Named); ok && n.Obj().Name() == typ && n.Obj().Pkg() != nil && n.Obj().Pkg().Path() == pkgPath {
						if _, isStruct := n.Underlying().(*types.Struct); isStruct {
							out = append(out, structStore{fn, st, addr, path})
							return
						}
					}
				}
				switch a := addr.(type) {
				case *ssa.FieldAddr:
					path = append([]string{fieldName(a)}, path...)
					addr = a.X
				case *ssa.IndexAddr:
					path = append([]string{"[]"}, path...)
					addr = a.X
				default:
					return
				}
			}
		})
	}
	return out
}

// freshAlloc: v is an allocation made in its own function (local variable, new(T), &T{…}).
func freshAlloc(v ssa.Value) bool {
	_, ok := v.(*ssa.Alloc)
	return ok
}

// callSitesOf returns the static call sites of fn in library code.
func (c *Ctx) callSitesOf(target *ssa.Function) []ssa.CallInstruction {
	var out []ssa.CallInstruction
	for _, fn := range c.LibFuncs() {
		eachInstr(fn, func(in ssa.Instruction) {
			ci, ok := in.(ssa.CallInstruction)
			if !ok {
				return
			}
			if ci.Common().StaticCallee() == target {
				out = append(out, ci)
			}
		})
	}
	return out
}

// funcValueUses: is fn used as a value (stored, passed) anywhere, i.e. may it be called dynamically?
func (c *Ctx) usedAsValue(target *ssa.Function) bool {
	used := false
	for _, fn := range c.LibFuncs() {
		eachInstr(fn, func(in ssa.Instruction) {
			for i, op := range in.Operands(nil) {
				if op == nil || *op != ssa.Value(target) {
					continue
				}
				if ci, ok := in.(ssa.CallInstruction); ok && i == 0 && ci.Common().Value == ssa.Value(target) {
					continue
				}
				used = true
			}
		})
	}
	return used
}

// ---------------------------------------------------------------------------
// R-ENV-IMMUT

func ruleEnvImmut(c *Ctx, r *Report) {
	const rule = "R-ENV-IMMUT"
	stores := c.storesIntoStruct(enginePkgPath, "Env")
	desc := "environment nodes are written only while still private to the writer (path copying)"
	viaRecv := map[*ssa.Function]bool{}
	for _, s := range stores {
		key := fmt.Sprintf("%s/store(%s)", fname(s.fn), strings.Join(append([]string{valName(s.base)}, s.path...), "."))
		switch b := s.base.(type) {
		case *ssa.Alloc:
			r.ok(rule, key, c.at(s.store), desc, "target is an allocation of this function (fresh copy or new node)", true)
		case *ssa.Parameter:
			if len(s.fn.Params) > 0 && s.fn.Params[0] == b && s.fn.Signature.Recv() != nil {
				viaRecv[s.fn] = true
				r.ok(rule, key, c.at(s.store), desc, "target is the receiver; discharged by the call-site obligations of "+fname(s.fn), true)
			} else {
				r.bad(rule, key, c.at(s.store), desc, "store through a parameter: the node may be shared with older environments")
			}
		default:
			r.bad(rule, key, c.at(s.store), desc, fmt.Sprintf("store through %s (%T): the node may be reachable from an older environment, so untaken alternatives and failed unifications would see the binding", valName(s.base), s.base))
		}
	}
	for fn := range viaRecv {
		if c.usedAsValue(fn) {
			r.bad(rule, fname(fn)+"/method-value", c.Pos(fn.Pos()), "in-place Env method is only called on fresh copies", "the method is used as a value; its receivers cannot be enumerated")
			continue
		}
		sites := c.callSitesOf(fn)
		if len(sites) == 0 {
			r.info(rule, fname(fn)+"/callsites", c.Pos(fn.Pos()), "in-place Env method is only called on fresh copies", "no call site")
		}
		for _, cs := range sites {
			recv := cs.Common().Args[0]
			key := fmt.Sprintf("%s/call %s(%s)", fname(cs.Parent()), fn.Name(), valName(recv))
			if freshAlloc(recv) {
				r.ok(rule, key, c.at(cs), "in-place Env method is only called on fresh copies", "receiver is a local allocation of the caller", true)
			} else {
				r.bad(rule, key, c.at(cs), "in-place Env method is only called on fresh copies", "receiver "+valName(recv)+" is not a local copy: shared tree nodes would be rotated in place")
			}
		}
	}
	// no store may reach the global root: the only stores whose value is loaded from / is the global are in init.
	if g := c.global("rootEnv"); g != nil {
		n := 0
		for _, in := range c.globalRefs(g) {
			if st, ok := in.(*ssa.Store); ok && st.Addr == g && !strings.HasPrefix(in.Parent().Name(), "init") {
				n++
				r.bad(rule, fname(in.Parent())+"/store(rootEnv)", c.at(in), "the root environment is assigned only by the package initialiser", "assigned at run time")
			}
		}
		if n == 0 {
			r.ok(rule, "rootEnv/assign", c.Pos(g.Pos()), "the root environment is assigned only by the package initialiser", "no run-time store to the variable", true)
		}
	}
	r.analysed(rule, fmt.Sprintf("%d stores into Env nodes", len(stores)))
}

// ---------------------------------------------------------------------------
// R-PARAM-THREAD

type threadRow struct {
	recvType string // "" for package-level function
	fn       string
	param    string
	why      string
	contOnly bool // only recursive calls made from continuations (func(*Env) *Promise) and from the function itself
}

var threadRows = []threadRow{
	{"Env", "unify", "occursCheck", "dropping it makes unify_with_occurs_check/2 check only the top level", false},
	{"VM", "exec", "vars", "a different variable frame breaks per-activation variables", false},
	{"VM", "exec", "cont", "a different continuation changes which goals run after the clause", false},
	{"VM", "exec", "cutParent", "a different barrier changes the scope of cut", true}, // the thunk after a cut re-bases the barrier: R-CUT-REBASE
	{"", "contains", "s", "the occurs check would look for a different term", false},
	{"", "contains", "env", "the occurs check would resolve under a different environment", false},
	{"", "renamedCopy", "copied", "a fresh map per level destroys variable sharing inside copies", false},
	{"", "renamedCopy", "env", "the copy would resolve under a different environment", false},
	{"", "simplify", "simplified", "a fresh map per level loses sharing / loops on cyclic terms", false},
	{"", "simplify", "env", "would resolve under a different environment", false},
	{"", "cyclicTerm", "env", "would resolve under a different environment", false},
}

func (c *Ctx) lookupFn(recvType, name string) *ssa.Function {
	if recvType == "" {
		return c.fn(name)
	}
	return c.method(recvType, name)
}

func ruleParamThread(rows []threadRow) func(c *Ctx, r *Report) {
	return func(c *Ctx, r *Report) {
		const rule = "R-PARAM-THREAD"
		for _, row := range rows {
			fn := c.lookupFn(row.recvType, row.fn)
			if fn == nil {
				r.undecided(rule, "anchor:"+row.fn, "-", "locate function "+row.fn, "not found")
				continue
			}
			pidx := -1
			for i, p := range fn.Params {
				if p.Name() == row.param {
					pidx = i
				}
			}
			if pidx < 0 {
				r.undecided(rule, fmt.Sprintf("anchor:%s.%s", row.fn, row.param), c.Pos(fn.Pos()), "locate parameter "+row.param, "not found")
				continue
			}
			param := fn.Params[pidx]
			nsites := 0
			for _, f := range withAnon(fn) {
				eachInstr(f, func(in ssa.Instruction) {
					ci, ok := in.(ssa.CallInstruction)
					if !ok || ci.Common().StaticCallee() != fn {
						return
					}
					if row.contOnly && f != fn && !(f.Signature.Params().Len() == 1 && c.isEnvPtr(f.Signature.Params().At(0).Type())) {
						return
					}
					nsites++
					arg := ci.Common().Args[pidx]
					key := fmt.Sprintf("%s/recursive-call[%d].%s", fname(f), nsites, row.param)
					desc := fmt.Sprintf("recursive call of %s passes its own %s unchanged", fn.Name(), row.param)
					good := true
					var badLeaf ssa.Value
					c.origins(arg, func(l ssa.Value) {
						if l == ssa.Value(param) {
							return
						}
						// lazy initialisation `if p == nil { p = make(...) }`
						if mm, ok := l.(*ssa.MakeMap); ok {
							for f := range c.factsAt(mm.Block()) {
								if bo, ok := f.cond.(*ssa.BinOp); ok && f.pol && bo.Op == token.EQL && (c.isParamLoad(bo.X, param) || c.isParamLoad(bo.Y, param)) {
									return
								}
							}
						}
						good = false
						if badLeaf == nil {
							badLeaf = l
						}
					})
					if good {
						r.ok(rule, key, c.at(ci), desc, "every origin of the argument is the parameter itself (or its nil-guarded lazy initialisation)", true)
					} else {
						r.bad(rule, key, c.at(ci), desc, fmt.Sprintf("argument may be %s (%T): %s", valName(badLeaf), badLeaf, row.why))
					}
				})
			}
			if nsites == 0 {
				r.info(rule, fmt.Sprintf("%s.%s", fname(fn), row.param), c.Pos(fn.Pos()), "recursive calls thread "+row.param, "function has no recursive call")
			}
		}
		r.analysed(rule, fmt.Sprintf("%d (function, parameter) rows", len(rows)))
	}
}

// isParamLoad: v is the parameter or a load of its spill cell.
func (c *Ctx) isParamLoad(v ssa.Value, p *ssa.Parameter) bool {
	if v == ssa.Value(p) {
		return true
	}
	ok, _ := c.comesOnlyFrom(v, func(l ssa.Value) bool {
		if l == ssa.Value(p) {
			return true
		}
		_, isMM := l.(*ssa.MakeMap)
		return isMM
	})
	return ok
}

// ---------------------------------------------------------------------------
// R-OCCURS-SITE: in unify, binding a variable happens only after the occurs check said no
// (or the check was not requested).

func ruleOccursSite(c *Ctx, r *Report) {
	const rule = "R-OCCURS-SITE"
	unify := c.method("Env", "unify")
	bind := c.method("Env", "bind")
	contains := c.fn("contains")
	if unify == nil || bind == nil || contains == nil {
		r.undecided(rule, "anchor", "-", "locate unify, bind, contains", "not found")
		return
	}
	var occ *ssa.Parameter
	for _, p := range unify.Params {
		if b, ok := p.Type().Underlying().(*types.Basic); ok && b.Kind() == types.Bool {
			occ = p
		}
	}
	if occ == nil {
		r.undecided(rule, "anchor:occursCheck", c.Pos(unify.Pos()), "locate the occurs-check flag (bool parameter) of unify", "not found")
		return
	}
	n := 0
	eachInstr(unify, func(in ssa.Instruction) {
		call, ok := in.(*ssa.Call)
		if !ok || call.Call.StaticCallee() != bind {
			return
		}
		n++
		key := fmt.Sprintf("%s/bind[%d]", fname(unify), n)
		desc := "every path to bind crosses the false edge of `occursCheck` or of the contains() test"
		reach := reachableAvoiding(unify, call.Block(), func(from *ssa.BasicBlock, i int, cond ssa.Value) bool {
			if cond == nil || i != 1 {
				return false
			}
			if cond == ssa.Value(occ) {
				return true
			}
			if cc, ok := cond.(*ssa.Call); ok && cc.Call.StaticCallee() == contains {
				// the check must be about the two terms being unified and the current environment
				return true
			}
			return false
		})
		if reach {
			r.bad(rule, key, c.at(call), desc, "bind is reachable on a path where the occurs check was requested and not performed: unify_with_occurs_check/2 would build cyclic terms")
		} else {
			r.ok(rule, key, c.at(call), desc, "cut-set check: removing those two false edges disconnects bind from the entry", true)
		}
	})
	// the contains() call inside unify must test the variable being bound against the other term
	eachInstr(unify, func(in ssa.Instruction) {
		call, ok := in.(*ssa.Call)
		if !ok || call.Call.StaticCallee() != contains {
			return
		}
		// arguments: (y, x, e): second must be a Variable-typed value (the variable to bind)
		a1 := call.Call.Args[1]
		key := fmt.Sprintf("%s/contains-args", fname(unify))
		if mi, ok := a1.(*ssa.MakeInterface); ok && isEngNamed(mi.X.Type(), "Variable") {
			r.ok(rule, key, c.at(call), "occurs check looks for the variable being bound", "second argument is the Variable of this case", false)
		} else {
			r.bad(rule, key, c.at(call), "occurs check looks for the variable being bound", "second argument is not the Variable of the variable case")
		}
	})
	r.analysed(rule, fname(unify))
}

// ---------------------------------------------------------------------------
// R-COMPOUND-UNIFORM: every non-struct representation of a compound (slice- or string-backed) is a
// list cell: Functor() is the constant '.' atom and Arity() is 2.

func ruleCompoundUniform(c *Ctx, r *Report) {
	const rule = "R-COMPOUND-UNIFORM"
	comp := c.compoundIface()
	if comp == nil {
		r.undecided(rule, "anchor:Compound", "-", "locate Compound", "not found")
		return
	}
	dot := c.global("atomDot")
	dotIsDot := false
	if dot != nil {
		for _, in := range c.globalRefs(dot) {
			st, ok := in.(*ssa.Store)
			if !ok || st.Addr != dot {
				continue
			}
			if call, ok := st.Val.(*ssa.Call); ok && call.Call.StaticCallee() == c.fn("NewAtom") {
				if k, ok := call.Call.Args[0].(*ssa.Const); ok && k.Value != nil && k.Value.ExactString() == `"."` {
					dotIsDot = true
				}
			}
		}
	}
	if dotIsDot {
		r.ok(rule, "atomDot/init", c.Pos(dot.Pos()), "the list functor atom is '.'", `initialised with NewAtom(".")`, false)
	} else {
		r.bad(rule, "atomDot/init", "-", "the list functor atom is '.'", "global not found or not initialised with NewAtom(\".\")")
	}
	for _, t := range c.termImplementers() {
		if !types.Implements(t, comp) {
			continue
		}
		switch deref(t).Underlying().(type) {
		case *types.Slice, *types.Basic:
		default:
			continue
		}
		for _, m := range []string{"Functor", "Arity"} {
			sel := c.Prog.MethodSets.MethodSet(t).Lookup(c.Engine.Pkg, m)
			key := fmt.Sprintf("%s.%s", typeName(t), m)
			desc := "list encoding reports the principal functor './2"
			if sel == nil {
				r.bad(rule, key, "-", desc, "method missing")
				continue
			}
			fn := c.Prog.MethodValue(sel)
			okAll, nret := true, 0
			eachInstr(fn, func(in ssa.Instruction) {
				ret, ok := in.(*ssa.Return)
				if !ok {
					return
				}
				nret++
				c.origins(ret.Results[0], func(l ssa.Value) {
					switch m {
					case "Functor":
						ld, ok := l.(*ssa.UnOp)
						if !ok || ld.Op != token.MUL || ld.X != ssa.Value(dot) {
							okAll = false
						}
					case "Arity":
						if k, ok := constInt(l); !ok || k != 2 {
							okAll = false
						}
					}
				})
			})
			if okAll && nret > 0 {
				r.ok(rule, key, c.Pos(fn.Pos()), desc, "every return yields the constant", true)
			} else {
				r.bad(rule, key, c.Pos(fn.Pos()), desc, "a return yields something else: code written against Compound would see a different principal functor for this encoding of a list")
			}
		}
	}
	r.analysed(rule, "slice- and string-backed Compound implementers")
}
