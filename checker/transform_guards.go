package main

import (
	"bytes"
	"fmt"
	"go/ast"
	"go/importer"
	"go/parser"
	"go/printer"
	"go/token"
	"go/types"
	"os"
	"path/filepath"
	"sort"
	"strings"
)

// extract-guards: the ninth whole-tree rewrite, and the only one that needs types. Every `if` condition that is a
// comparison (or a && / || / ! combination of comparisons and calls) over local variables and parameters moves
// into a new package-level predicate that is given those variables: `if n < base {` becomes
// `if zzGuard17(n, base) {` with `func zzGuard17(n Integer, base Integer) bool { return n < base }`. This is the
// refactoring behind most false alarms met during the build ("a guard moved into a helper"); the fact engine's
// helper summaries (helperfacts.go) are what is supposed to make every rule indifferent to it.
type importerFor struct {
	std types.Importer
	own map[string]*types.Package
}

func (i importerFor) Import(path string) (*types.Package, error) {
	if p, ok := i.own[path]; ok {
		return p, nil
	}
	return i.std.Import(path)
}

func extractGuardsOverlay(dir string) (map[string][]byte, bool) {
	fset := token.NewFileSet()
	imp := importerFor{std: importer.ForCompiler(fset, "source", nil), own: map[string]*types.Package{}}
	ov := map[string][]byte{}
	total := 0
	counter := 0
	for _, sub := range []struct{ dir, path string }{{"engine", enginePkgPath}, {".", rootPkgPath}} {
		ents, err := os.ReadDir(filepath.Join(dir, sub.dir))
		if err != nil {
			return nil, false
		}
		var files []*ast.File
		var paths []string
		for _, e := range ents {
			if e.IsDir() || !strings.HasSuffix(e.Name(), ".go") || strings.HasSuffix(e.Name(), "_test.go") {
				continue
			}
			path := filepath.Join(dir, sub.dir, e.Name())
			f, err := parser.ParseFile(fset, path, nil, parser.ParseComments)
			if err != nil {
				return nil, false
			}
			// build-constrained variants of one file (malloc_*.go): keep the default one only
			files = append(files, f)
			paths = append(paths, path)
		}
		info := &types.Info{Uses: map[*ast.Ident]types.Object{}, Defs: map[*ast.Ident]types.Object{}, Types: map[ast.Expr]types.TypeAndValue{}}
		conf := types.Config{Importer: imp, Error: func(error) {}}
		pkg, _ := conf.Check(sub.path, fset, files, info)
		if pkg == nil {
			return nil, false
		}
		imp.own[sub.path] = pkg
		for fi, f := range files {
			imported := map[string]bool{}
			for _, is := range f.Imports {
				p := strings.Trim(is.Path.Value, `"`)
				imported[p] = true
			}
			var helpers []string
			n := 0
			ast.Inspect(f, func(nd ast.Node) bool {
				is, ok := nd.(*ast.IfStmt)
				if !ok || !guardShape(is.Cond) {
					return true
				}
				// free local variables of the condition
				type fv struct {
					name string
					typ  string
				}
				var fvs []fv
				seen := map[types.Object]bool{}
				okAll := true
				ast.Inspect(is.Cond, func(x ast.Node) bool {
					switch y := x.(type) {
					case *ast.FuncLit:
						okAll = false
						return false
					case *ast.SelectorExpr:
						// only the operand, not the selected name
						ast.Inspect(y.X, func(z ast.Node) bool {
							if id, ok := z.(*ast.Ident); ok {
								visitIdent(id, info, pkg, imported, seen, &okAll, func(name, typ string) { fvs = append(fvs, fv{name, typ}) })
							}
							return true
						})
						return false
					case *ast.Ident:
						visitIdent(y, info, pkg, imported, seen, &okAll, func(name, typ string) { fvs = append(fvs, fv{name, typ}) })
					}
					return true
				})
				if !okAll || len(fvs) == 0 || len(fvs) > 4 {
					return true
				}
				sort.Slice(fvs, func(i, j int) bool { return fvs[i].name < fvs[j].name })
				counter++
				name := fmt.Sprintf("zzGuard%d", counter)
				var buf bytes.Buffer
				_ = printer.Fprint(&buf, fset, is.Cond)
				var params, args []string
				for _, v := range fvs {
					params = append(params, v.name+" "+v.typ)
					args = append(args, v.name)
				}
				helpers = append(helpers, fmt.Sprintf("func %s(%s) bool {\n\treturn %s\n}\n", name, strings.Join(params, ", "), buf.String()))
				call := &ast.CallExpr{Fun: ast.NewIdent(name)}
				for _, a := range args {
					call.Args = append(call.Args, ast.NewIdent(a))
				}
				is.Cond = call
				n++
				return true
			})
			if n == 0 {
				continue
			}
			total += n
			var buf bytes.Buffer
			if err := printer.Fprint(&buf, fset, f); err != nil {
				return nil, false
			}
			buf.WriteString("\n")
			for _, h := range helpers {
				buf.WriteString("\n" + h)
			}
			ov[paths[fi]] = buf.Bytes()
		}
	}
	return ov, total > 0
}

// guardShape: a comparison, or a boolean combination whose leaves are comparisons, calls, identifiers.
func guardShape(e ast.Expr) bool {
	switch x := e.(type) {
	case *ast.ParenExpr:
		return guardShape(x.X)
	case *ast.UnaryExpr:
		return x.Op == token.NOT && guardShape(x.X)
	case *ast.BinaryExpr:
		switch x.Op {
		case token.LAND, token.LOR:
			return guardShape(x.X) && guardShape(x.Y)
		case token.EQL, token.NEQ, token.LSS, token.LEQ, token.GTR, token.GEQ:
			return true
		}
	}
	return false
}

func visitIdent(id *ast.Ident, info *types.Info, pkg *types.Package, imported map[string]bool, seen map[types.Object]bool, okAll *bool, add func(name, typ string)) {
	obj := info.Uses[id]
	if obj == nil {
		return
	}
	v, ok := obj.(*types.Var)
	if !ok || v.IsField() || v.Parent() == nil || v.Parent() == pkg.Scope() || v.Parent() == types.Universe {
		return // constants, functions, types, package-level variables, fields: visible from the helper as they are
	}
	if v.Pkg() != pkg {
		return
	}
	if seen[obj] {
		return
	}
	seen[obj] = true
	if id.Name == "_" {
		*okAll = false
		return
	}
	bad := false
	ts := types.TypeString(v.Type(), func(p *types.Package) string {
		if p == pkg {
			return ""
		}
		if !imported[p.Path()] {
			bad = true
		}
		return p.Name()
	})
	// a type declared inside a function, a type parameter, or an untyped nil cannot be named at package level
	var walk func(t types.Type, depth int)
	walk = func(t types.Type, depth int) {
		if depth > 6 {
			return
		}
		switch x := t.(type) {
		case *types.Named:
			if o := x.Obj(); o.Pkg() != nil && o.Parent() != o.Pkg().Scope() {
				bad = true
			}
			if o := x.Obj(); o.Pkg() != nil && o.Pkg() != pkg && !o.Exported() {
				bad = true
			}
		case *types.Pointer:
			walk(x.Elem(), depth+1)
		case *types.Slice:
			walk(x.Elem(), depth+1)
		case *types.Array:
			walk(x.Elem(), depth+1)
		case *types.Map:
			walk(x.Key(), depth+1)
			walk(x.Elem(), depth+1)
		case *types.Chan:
			walk(x.Elem(), depth+1)
		case *types.TypeParam:
			bad = true
		case *types.Tuple:
			bad = true
		case *types.Basic:
			if x.Info()&types.IsUntyped != 0 {
				bad = true
			}
		}
	}
	walk(v.Type(), 0)
	if bad {
		*okAll = false
		return
	}
	add(id.Name, ts)
}
